#!/usr/bin/env python3
"""Regenerates MANIFEST.json from the table below. Run after changing claims."""
import json, subprocess

LOOPNOTE = 'Trusts: A1 token contract (lower-case tag names, exact serialiser/tokeniser round trip), sanitizeAttrs replaced by an arbitrary-result stub, policy tables of at most 2 entries per kind (an upper bound that is general for one step: one step looks up one name per table), z3 5.1 / cvc5 1.0, go/ssa semantics as interpreted.'

CLAIMED = {
 "C20": dict(
   text="Relational unit checks on the real code: (1) validURL applied to its own result accepts it unchanged (free raw value, symbolic scheme allowlist/pattern, relative on/off); (2) sanitizeAttrs applied to its own output returns it unchanged, for a/link/img/q with up to 2 attributes among the attributes the sanitiser rewrites (href/src/cite/rel/target/crossorigin), five combinations of the link and crossorigin options, with validURL replaced by the functional summary that (1) establishes; (3) the same for the iframe sandbox filter with a symbolic allowlist; (4) the same under the real UGCPolicy for one free attribute of every vocabulary element except del/ins. SMT decides equality of the two attribute lists on every path; counterexamples are replayed by running the real sanitizeAttrs twice.",
   note="Trusts: A3 (URL.String() is a fixed point of Parse/String, keeps scheme and host, contains no white space); URL values without embedded white space; policies without custom URL checks and without rewriter (statement's class); lifting from attribute lists to documents uses C01/C06 and the tokenizer/serialiser round trip (A1).",
   technique="symbolic execution of go/ssa + SMT (relational two-pass harness, lemma-validated summary)", design="5 C20"),

 "C04": dict(
   text="The real UGCPolicy() and StrictPolicy() are obtained by executing the constructors (and every helper they call) inside the symbolic interpreter. (1) Their tables and switches are compared with a vocabulary table written from the documentation (elements, forbidden elements, global attributes, the three URL schemes, no patterns/styles/rewriter, unsafe switches off). (2) One iteration of sanitize's token loop from an arbitrary state runs under each concrete policy with token names from the vocabulary, every forbidden element and generic names: every write is escaped text or, for UGC, a tag of the vocabulary; Strict writes no tag, comment or doctype. (3) The real sanitizeAttrs + validURL run under the concrete UGC policy on one free attribute of each vocabulary element: SMT decides that every surviving attribute is in the documented list for that element, is neither style nor on*, that URL attributes have scheme http/https/mailto or none and are emitted normalised, and that links get rel=nofollow.",
   note="Trusts: the vocabulary table as the documented vocabulary; A1-A3; attribute values without embedded white space and elements other than del/ins in part (3) (those cases are covered generically by C02/C03); the converse direction (conforming documents pass unchanged) is C07's generic result, not re-instantiated; z3 5.1 / cvc5 1.0; go/ssa semantics as interpreted.",
   technique="symbolic execution of go/ssa (concrete execution of the constructors, symbolic inputs) + SMT", design="5 C04"),
 "C18": dict(
   text="For every function in the real defaultStyleHandlers map (read from the heap after executing the css package initialiser) the handler body is executed symbolically on a free value; calls of other handlers are opaque predicates carrying the lemma 'accepts t => t has no hostile fragment' that this check establishes for them (modular over the call graph). Three helper idioms are replaced by summaries that are first proved against their real bodies: recursiveCheck = existence of a segmentation (<=3 parts, <=2 predicates), in(splitValues(v), consts) = a regular language (<=3 parts, then used for any number of parts). On every accepting path SMT decides, per hostile class (<, >, backslash, @, expression(, javascript:/data: reference, url() that is not a plain http/https reference), that the value has no such fragment; for split values the classes are distributed over the parts using lemmas the solver proves for arbitrary strings. GetDefaultHandler on an unknown property yields BaseHandler, which rejects everything.",
   note="Trusts: A4 regex translation; regexp.ReplaceAll(v, \"\") as an uninterpreted function that neither deletes nor creates a hostile fragment; split bound K=2 (quick) / 3 (thorough) parts per level for space/slash splits, K+2 for handlers that address split parts by constant index (comma-separated enum lists are unbounded via the summary); a symbolic counterexample that rests on an opaque sub-handler is made concrete by restricting accepted sub-handler arguments to words the real handlers accept. Not claimed: TransformHandler (solver timeouts); FontFamilyHandler, FontHandler, BorderSideRadiusHandler, BackgroundHandler, BackgroundPositionHandler are checked in the thorough tier only. 'Belongs to the property's value space' beyond inertness is outside.",
   technique="symbolic execution of go/ssa + SMT strings/regex (modular, lemma-validated summaries)", design="5 C18"),

 "C14": dict(
   text="Part A: every index, slice, nil-map, nil-dereference, type-assertion and explicit-panic site reached on any path of the token loop (with the inductively proved invariant skipClosingTag <=> non-empty stack), isDataAttribute, removeUnicode (up to 2 escapes per value), the data-URI check closure, sanitizeStyles, validURL and the sandbox filter is a built-in obligation of the symbolic interpreter, discharged by SMT on free inputs. Part B: css.recursiveCheck is executed with opaque predicates and the number of predicate calls on every path is compared with the segmentation-table bound F*n(n+1)/2 for n<=4 (quick) / 5 (thorough) parts; an excess is replayed as a timing measurement of a pumped style value through Policy.Sanitize.",
   note="Trusts: models of FindStringIndex (sub-range matching the pattern), strconv.Unquote and base64 (uninterpreted); panics and running time inside x/net/html, net/url, regexp, douceur are outside; wall-clock time is not claimed, only the call-count bound up to the stated n.",
   technique="symbolic execution of go/ssa with built-in safety obligations + SMT; path-wise call counting", design="5 C14"),
 "C15": dict(
   text="(1) Sanitize, SanitizeBytes, SanitizeReader, SanitizeReaderToWriter and sanitizeWithBuff are executed symbolically with sanitize(r, w) summarised as an uninterpreted function of the reader content (fails, or writes San(content)); SMT decides that the four results coincide for non-blank input, that blank input is returned as is, and that an error yields an empty result. (2) The loop relation is extracted twice, for a destination with WriteString and for a plain io.Writer (through asStringWriter); SMT decides that from the same state, token and choices the observable step (what is written, return, next state) is the same.",
   note="Trusts: A1c (token stream independent of reader chunking - a tokenizer property, not encoded); the command-line tools are not encoded (outside the claim); []byte values are immutable views in the engine, so a write into the caller's buffer would surface as an unsupported operation, not as a verdict.",
   technique="symbolic execution of go/ssa + SMT (uninterpreted summary of sanitize; relational comparison of two extracted step relations)", design="5 C15"),
 "C17": dict(
   text="The real builder methods are executed symbolically on free names: (case) each name-taking builder files its rule under lower(name) - decided by SMT with ToLower uninterpreted; (order/accumulation) every pair of rule-adding calls of one kind with free, possibly aliasing element/attribute names is run in both orders on two policies and the rule multisets per key must coincide and keep the first rule; (switches) two consecutive calls with free boolean arguments leave the last value, skip/keep content and scheme registrations follow the most recent call; (independence) two policies from each constructor share no mutable heap object (reachability over the interpreter's heap) and extending one through every builder writes to no object of the other (effect tracking). Counterexamples are replayed by comparing two policies on a probe document.",
   note="Trusts: rule identity = identity of the *regexp.Regexp value; behavioural equality follows from table equality because sanitising only reads the tables (C13); z3 5.1 / cvc5 1.0; go/ssa semantics as interpreted.",
   technique="symbolic execution of go/ssa + SMT; heap reachability and effect tracking", design="5 C17"),

 "C13": dict(
   text="Reduction decided by symbolic execution + SMT: every path of the real sanitizeAttrs, matchRegex, sanitizeStyles, validURL (unit harnesses of C02/C03/C10/C11/C12 with the policy frozen after construction) and of one iteration of sanitize's token loop (arbitrary state) is checked for stores, map updates, deletes and in-place appends whose target existed before the call (effect tracking in the interpreter's heap; spare slice capacity modelled); a feasible path with such a write is replayed natively by comparing the policy before/after and results against a fresh policy, sequentially and from 8 goroutines. Map-ranging code (matchRegex, style merge, style routing) is executed under every iteration order and must meet an order-independent specification.",
   note="Trusts: regexp and user callbacks reentrant (A4); append growth model; goroutine interleavings are not explored (no write to shared memory on any path implies race freedom under the Go memory model); z3 5.1 / cvc5 1.0; go/ssa semantics as interpreted.",
   technique="symbolic execution of go/ssa with heap effect tracking + SMT path feasibility", design="5 C13"),

 "C10": dict(
   text="Unit-level symbolic execution of the real sanitizeStyles with douceur's parser replaced by an arbitrary declaration list (up to 2 declarations with free property and value; the tiers differ in the matcher-list shapes), a symbolic rule set (one symbolic property key in the element scope - explicit, element-pattern or absent - and one in the global scope; matcher lists mixing opaque handlers, symbolic enumerations and opaque patterns). SMT decides on every path that the emitted style equals the '; '-join, in order, of exactly the declarations whose lower-cased, prefix-stripped property has a matcher accepting the lower-cased, escape-decoded value, and that a parse error or an empty result removes the attribute. A second harness decides the routing in sanitizeAttrs (style rules present => style filter, else generic attribute rules).",
   note="Trusts: A5 (douceur returns an error or an arbitrary declaration list); strings.ToLower and removeUnicode as uninterpreted symbols shared by code and oracle, in the statement's order (lower-case, then decode), with ground facts from the real functions when a counterexample is made concrete (removeUnicode's browser-exactness is outside the claim, see DESIGN.md); z3 5.1 / cvc5 1.0; go/ssa semantics as interpreted.",
   technique="symbolic execution of go/ssa + SMT (unit harness with nondeterministic parser stub and symbolic style rules)", design="5 C10"),

 "C03": dict(
   text="Unit-level symbolic execution of the real sanitizeAttrs + validURL for each of the 17 (element, attribute) positions of the statement, with a symbolic scheme allowlist (symbolic scheme keys, each unconditional or guarded by 1-2 opaque custom checks), optional opaque scheme pattern, relative-URL switch and optional opaque src rewriter, on a free raw value. net/url is an uninterpreted function (A3). SMT decides on every path that a surviving value has no white space (data: URIs excepted), parses, has an allowlisted and approved scheme or is a relative reference with relative URLs allowed, and is emitted in normal form / as the rewriter's result. Counterexamples are made concrete by fixing the raw value to candidate URLs with the facts net/url really yields, and replayed through the real code.",
   note="Trusts: A3 (net/url as uninterpreted ok/scheme/host/normal-form with the axioms listed in DESIGN.md, incl. rejection of control characters); one attribute per tag; scheme table of 1 (quick) / 2 (thorough) entries; z3 5.1 / cvc5 1.0; go/ssa semantics as interpreted.",
   technique="symbolic execution of go/ssa + SMT (unit harness, uninterpreted URL parser, ground refinement of counterexamples)", design="5 C03"),

 "C02": dict(
   text="Unit-level symbolic execution of the real sanitizeAttrs with symbolic element-rule and global-rule tables (symbolic keys, rule lists of every shape up to two rules with opaque value patterns) on up to 2/3 attributes with free keys and values: SMT decides on every path that each emitted attribute equals an input attribute that some applicable rule accepts (spec written from the statement, patterns judged on the decoded value). Separately: isDataAttribute executed on a free key (A1) implies the HTML standard's data-* shape; matchRegex returns rules only from matching patterns; and, on the extracted loop relation (induction), no start/self-closing tag is written with zero attributes unless the element is allowed without attributes.",
   note="Trusts: A1 key alphabet; value patterns as uninterpreted predicates; strings.Split model bounded to 3 parts for the data-attribute check; one symbolic entry per table (both tiers; two entries with three attributes exceeds the machine's memory); style and URL/link/forced attributes are the subject of C10/C03/C11/C12; z3 5.1 / cvc5 1.0; go/ssa semantics as interpreted.",
   technique="symbolic execution of go/ssa + SMT (unit harness with symbolic policy tables; induction on the loop relation for bare elements)", design="5 C02"),
 "C07": dict(
   text="Same unit harness as C02, converse direction: whenever every input attribute is accepted by some rule of the element or global tables (any one of overlapping rules, in any list position), sanitizeAttrs returns the list unchanged and in order; matchRegex merges the rules of all matching element patterns (both map iteration orders explored). Decided per path by SMT with opaque value patterns.",
   note="Trusts: as C02. Byte-for-byte equality of documents follows from token equality by A1; element-level passage of allowed tags is covered by the C06 step expectations.",
   technique="symbolic execution of go/ssa + SMT (unit harness with symbolic policy tables)", design="5 C07"),

 "C12": dict(
   text="Unit-level symbolic execution of the real sanitizeAttrs on audio/img/link/script/video/iframe/other with up to 2 attributes (keys crossorigin/sandbox/other/free, free values, sandbox values of up to 3/4 tokens), with crossorigin forcing and/or a sandbox allowlist in which every one of the fourteen documented tokens is allowed or not by its own symbolic boolean (all 2^14 subsets in one run). SMT decides per path: every crossorigin equals anonymous and one exists; a sandbox attribute exists, every token of the emitted value (re-split on white space) is a listed token, no token occurs twice, the value is in canonical single-space form. The real RequireSandboxOnIFrame/AllowIFrames are executed on each documented value and the resulting table compared with the documented token.",
   note="Trusts: strings.Fields / strings.Join models (validated differentially), Fields bounded to 3/4 tokens per sandbox value (longer values cut and counted), z3 5.1 / cvc5 1.0, go/ssa semantics as interpreted.",
   technique="symbolic execution of go/ssa + SMT strings (unit harness)", design="5 C12"),

 "C11": dict(
   text="Unit-level symbolic execution of the real sanitizeAttrs (go/ssa) on an element with up to 2 attributes whose keys range over href/rel/target/other/free and whose values are free strings, for concrete combinations of the five link options (8 quick / all 31 thorough), with URL checking left on or switched off again afterwards, and elements a/area/link/other. On every path SMT decides the oracle written from the statement: required rel tokens present as white-space delimited tokens (regular-language membership on the emitted rel), target=_blank on host-qualified <a>, noopener whenever target=_blank, existing rel kept as prefix, no required token appended twice. A rel-token helper, if present, is first proven equivalent to the regular token predicate on its own body and then summarised. Counterexamples are refined to replayable URLs and replayed through the real sanitizeAttrs.",
   note="Trusts: validURL replaced by an arbitrary verdict/value stub (C03's subject); url.Parse as an uninterpreted function (A3), the oracle's 'has a host' uses the same function; Fields bounded to 4/5 tokens in the helper lemma; z3 5.1 / cvc5 1.0; go/ssa semantics as interpreted.",
   technique="symbolic execution of go/ssa + SMT strings/regex (unit harness, lemma-validated function summary)", design="5 C11"),

 "C08": dict(
   text="Bounded model checking of the extracted loop relation: the step relation (one disjunct per feasible symbolic path of the loop body, regenerated from go/ssa) is unrolled k times from the initial loop state together with an SMT-encoded nesting monitor (stack of open elements, count D of open disallowed skip-content elements); unsat of 'a token inside a skipped region is written, or text outside is dropped' for every k up to the bound covers every token sequence, every assignment of names from the name domain and every symbolic policy at once. quick k<=5, thorough k<=7.",
   note=LOOPNOTE + " Bounded: sequence length k; element names from a finite domain (4 generic names, script, style, one void, one RCDATA name); skip-content set free of void elements and frame (observation recorded in DESIGN.md).", technique="symbolic execution of go/ssa + SMT bounded model checking (k-unrolling of the step relation with a nesting monitor)", design="5 C08"),
 "C09": dict(
   text="Bounded model checking as for C08 with a second monitor stack for the written tags: for every k up to the bound, no well-nested token sequence makes the output contain an end tag that does not close the innermost open output element, or leaves an element unclosed. Each model is replayed through Policy.Sanitize and judged by a stack-balance check on the re-tokenised output. The recorded finding (same-name nesting of an element on the skip stack and one that is not) is matched by an SMT-expressed class condition and the query is re-run with that class excluded, so any other violation still fails the check. quick k<=5, thorough k<=6.",
   note=LOOPNOTE + " Bounded: sequence length k; element names from a finite domain.", technique="symbolic execution of go/ssa + SMT bounded model checking (k-unrolling with input/output nesting monitors)", design="5 C09"),

 "C01": dict(
   text="Inductive step decided by SMT: the body of sanitize's token loop is executed symbolically from go/ssa with the loop-carried state havocked, an arbitrary token and a fully symbolic policy (tables, patterns as uninterpreted predicates, switches); the query 'some write is not an allowlisted tag / allowed comment / escaped text / strip space' must be unsat. Covers token histories of any length. A sat answer is turned into a concrete policy+HTML by unrolling the extracted step relation from the initial state and replayed through Policy.Sanitize.",
   note=LOOPNOTE, technique="symbolic execution of go/ssa + SMT (induction over the token loop, k-unrolling for witnesses)", design="5 C01"),
 "C05": dict(
   text="Two SMT-decided step queries over the extracted loop relation, for every policy with AllowUnsafe off (including policies naming or pattern-matching script/style): (i) from an arbitrary loop state no tag token named script/style is written; (ii) from an arbitrary state, after a start or self-closing script/style tag the following text token causes no write. Unbounded history; witnesses by unrolling + native replay.",
   note=LOOPNOTE, technique="symbolic execution of go/ssa + SMT (1- and 2-step induction over the token loop)", design="5 C05"),
 "C06": dict(
   text="Induction with invariant (skipElementContent=false, mostRecentlyStartedToken not script/style) over the extracted step relation: every text token is written exactly once as its escaped serialisation, every tag token writes either itself, or exactly one space iff space insertion is on, comments/doctypes never add text; invariant preserved. Decided by SMT for all policies of the statement's class.",
   note=LOOPNOTE, technique="symbolic execution of go/ssa + SMT (inductive invariant over the token loop)", design="5 C06"),
 "C16": dict(
   text="Fault-injecting symbolic writer/reader: every write call may fail, the reader may fail with EOF or another error. SMT decides, from an arbitrary loop state, that a failed write or non-EOF reader error makes sanitize return a non-nil error immediately (no later write), and that sanitizeWithBuff returns an empty buffer on a reader error; written strings are checked not to depend on earlier write results (prefix property by induction).",
   note=LOOPNOTE, technique="symbolic execution of go/ssa with nondeterministic I/O stubs + SMT", design="5 C16"),

 "C19": dict(
   text="Bounded-in-alphabet, unbounded-in-length decision by string solver: each exported pattern is read from the heap produced by symbolically executing the package initialiser, translated to a regular language with Go's search semantics and compared with a hand-written reference language and alphabet (L(p) within Ref, L(p) within Alphabet*, documented examples in L(p)). unsat = holds for every 7-bit ASCII string of any length.",
   note="Trusts: regexp/syntax parse tree semantics as translated (validated per run against the real MatchString on solver-chosen members/non-members); z3 5.1/cvc5 1.0 (both must not contradict); ASCII domain (non-ASCII input outside the claim).",
   technique="SMT string/regex solving (z3, cvc5) over patterns extracted by symbolic execution of go/ssa init", design="5 C19"),
}
NOT_YET = {}
REASONS = {}

def main():
    props = [json.loads(l) for l in open('/verif/properties.jsonl')]
    checks = []
    na = []
    for p in props:
        i = p['id']
        if i in CLAIMED:
            c = CLAIMED[i]
            checks.append({
              "property_id": i,
              "quick_cmd": "./check %s quick" % i,
              "thorough_cmd": "./check %s thorough" % i,
              "evidence_file": "/verif/evidence/%s.json" % i,
              "replay_cmd_template": "sh {path}/replay.sh",
              "engine": "bmsym",
              "level_claimed": {"category": "model_checking", "text": c['text'], "design_ref": c['design']},
              "level_note": c['note'],
              "technique": c['technique'],
            })
        else:
            na.append({"property_id": i, "reason": REASONS.get(i, "check not built (see DESIGN.md)")})
    m = {
      "version": 1,
      "setup_cmd": "cd /verif/engine && GOFLAGS=-mod=mod GOPROXY=off GOSUMDB=off GOTOOLCHAIN=local go build -o /verif/bin/bmsym ./cmd/bmsym",
      "hooks": {"guard": "verif", "enable": "harness files are overlaid with go/packages Overlay and `go test -overlay` under -tags verif; nothing is written into /repo", "baseline_off_cmd": "cd /repo && GOFLAGS=-mod=mod GOPROXY=off go test -vet=off -count=1 ./...", "source_commits": [], "add_only": True},
      "engines": [{"name": "bmsym", "path": "/verif/engine", "serves_properties": sorted(CLAIMED), "kind_free_text": "forking symbolic interpreter over go/ssa of /repo's working tree emitting SMT-LIB (strings, regex, ints, arrays), discharged by z3 5.1 and cvc5 1.0; models replayed natively via go test -overlay"}],
      "checks": checks,
      "not_applicable": na,
      "notes": "exit 0 = held within stated bounds; exit 1 + VIOLATION line = natively replayed counterexample; exit 2 + INCONCLUSIVE = the check could not decide (load failure, solver unknown at the registered bound, non-replaying model).",
    }
    json.dump(m, open('/verif/MANIFEST.json', 'w'), indent=1)
    print("claimed:", sorted(CLAIMED), "na:", [x['property_id'] for x in na])

if __name__ == '__main__':
    main()
