package checks

import (
	"fmt"
	"net/url"
	"sort"
	"strings"

	"bmsym/smt"
	"bmsym/sym"
)

var urlPositions = [][2]string{
	{"a", "href"}, {"area", "href"}, {"base", "href"}, {"link", "href"},
	{"blockquote", "cite"}, {"del", "cite"}, {"ins", "cite"}, {"q", "cite"},
	{"audio", "src"}, {"embed", "src"}, {"iframe", "src"}, {"img", "src"}, {"input", "src"},
	{"script", "src"}, {"source", "src"}, {"track", "src"}, {"video", "src"},
}

// Replayable URL shapes for witness refinement: "<scheme>:<opaque>" with a
// lower-case scheme, an absolute http(s) URL, or a rooted relative path. For
// these net/url's result is known, and checked natively at replay.
var (
	reOpaqueURL = smt.Translate(`^[a-z]{2,10}:[a-z0-9]{1,6}$`)
	// an absolute URL whose path contains a space (url.Parse accepts it and String() escapes it)
	reSpaceAbs = smt.Translate(`^https?://[a-z]{1,6}/[a-z]{1,3} [a-z]{1,3}$`)
)

func c03Refine(raw *smt.Term) []*smt.Term {
	abs, rel, opq, spc := reSimpleAbs.Match(raw), reSimpleRel.Match(raw), reOpaqueURL.Match(raw), reSpaceAbs.Match(raw)
	ok := smt.UF("url.ok", smt.Bool, raw)
	scheme := smt.UF("url.scheme", smt.String, raw)
	norm := smt.UF("url.norm", smt.String, raw)
	idx := smt.IndexOf(raw, smt.StrC(":"), smt.IntC(0))
	return []*smt.Term{
		smt.Or(abs, rel, opq, spc), ok,
		smt.Implies(smt.Not(spc), smt.Eq(norm, raw)),
		smt.Implies(spc, smt.Eq(norm, smt.ReplaceAll(raw, smt.StrC(" "), smt.StrC("%20")))),
		smt.Implies(rel, smt.Eq(scheme, smt.StrC(""))),
		smt.Implies(smt.Or(abs, opq, spc), smt.Eq(scheme, smt.Substr(raw, smt.IntC(0), idx))),
	}
}

// C03: URL attributes carry only allowed schemes.
func runC03(c *Ctx, ev *Evidence) ([]Violation, error) {
	timeout, grace := unitTimeouts(c)
	entries, maxAttrs := 1, 1
	if c.Tier == "thorough" {
		entries = 2
	}
	ev.Func("(*Policy).sanitizeAttrs [URL phase]", "(*Policy).validURL", "linkable", "(*Policy).RequireParseableURLs")
	ev.Bound("positions", "all 17 (element, attribute) positions of the statement; one or two attributes per tag, each the URL attribute (duplicates included) or an unrelated allowed attribute")
	ev.Bound("scheme_table", fmt.Sprintf("%d symbolic scheme(s), each unconditional or with 1-2 opaque custom checks; 0-1 opaque scheme pattern; relative URLs on/off symbolic; src rewriter absent or opaque", entries))
	ev.Assume("A3: url.Parse / URL.String are uninterpreted functions of the string (ok, scheme, host, normal form) that a WHATWG parser agrees with on strings free of white space and control characters",
		"data: URIs with embedded white space (deliberately tolerated, base64 line breaks) are only required to pass the scheme rule; the white-space rule is checked for every other value",
		"RequireParseableURLs is on (every URL option implies it)")
	ur, err := c.exploreUnit(ev, "HarnessC03_urls", sym.Config{Params: map[string]int{"schemeEntries": entries, "maxAttrs": maxAttrs, "onlyPos": 0}})
	if err != nil {
		return nil, err
	}
	defer ur.In.Close()
	seen := map[string]bool{}
	budget := newReplayBudget()
	viols, reach, err := c.runUnitObligations(ev, ur, "C03", timeout, grace, func(r UnitResult) (*Violation, error) {
		pos := int(r.Notes["pos"].I)
		var failed []string
		for k, v := range r.Notes {
			if strings.HasPrefix(k, "c:") && !v.B {
				failed = append(failed, strings.TrimPrefix(k, "c:"))
			}
		}
		sort.Strings(failed)
		sig := fmt.Sprintf("position=%s[%s] conjunct=%s", urlPositions[pos][0], urlPositions[pos][1], strings.Join(failed, "+"))
		if seen[sig] || !budget.allow(sig) {
			return nil, nil
		}
		// ground refinement: fix the raw values to concrete candidate URLs with
		// the facts net/url really yields for them
		nt := noteTerms(r.Ob)
		var raws []*smt.Term
		for i := 0; ; i++ {
			t, ok := nt[fmt.Sprintf("in.v%d", i)]
			if !ok {
				break
			}
			raws = append(raws, t)
		}
		var r2 UnitResult
		found := false
		short := []string{"javascript:alert(1)", "http://a/b", "/p", "http://a/b c", "data:text/html,<x>", "mailto:x@y", " http://a/b ", "x"}
		try := func(vals []string) bool {
			var facts []*smt.Term
			for i, v := range vals {
				facts = append(facts, urlCandidateFacts(raws[i], v)...)
			}
			name := fmt.Sprintf("C03-ground-p%d-%d", r.Ob.PathID, len(facts))
			r2 = solveOb(ur.In, r.Ob, facts, timeout, grace, name)
			ev.Query(name, r2.Res)
			return r2.Res.Status == smt.Sat
		}
		if len(raws) == 1 {
			// every candidate that makes the counterexample concrete is replayed until
			// one reproduces (a few per obligation)
			replays := 0
			for _, cand := range urlCandidates {
				if !try([]string{cand}) {
					continue
				}
				found = true
				replays++
				v, reproduced, err := replayC03x(c, ev, r2, sig)
				if err != nil {
					return nil, err
				}
				if reproduced {
					seen[sig] = true
					return v, nil
				}
				if replays >= 4 {
					break
				}
			}
			if found {
				ev.Inconclusive(fmt.Sprintf("C03: counterexample at %s: %d concrete instance(s) did not reproduce natively", sig, replays))
				return nil, nil
			}
		} else {
		outer:
			for _, c0 := range short {
				for _, c1 := range short {
					if try([]string{c0, c1}) {
						found = true
						break outer
					}
				}
			}
		}
		if !found {
			ev.Inconclusive(fmt.Sprintf("C03: counterexample at %s: no candidate URL makes it concrete", sig))
			return nil, nil
		}
		v, err := replayC03(c, ev, r2, sig)
		if v != nil {
			seen[sig] = true
		}
		return v, err
	})
	if err != nil {
		return nil, err
	}
	// several attributes per tag, validURL stubbed: every emitted URL attribute is a validURL result
	{
		ma := 2
		if c.Tier == "thorough" {
			ma = 3
		}
		um, err := c.exploreUnit(ev, "HarnessC03_multi", sym.Config{Stubs: map[string]string{validURLFn: "stubValidURL"}, Params: map[string]int{"maxAttrs": ma}})
		if err != nil {
			return nil, err
		}
		ev.Bound("multi_attribute_run", fmt.Sprintf("2..%d attributes per tag (URL attribute duplicates and unrelated attributes in any order), all 17 positions, validURL as an arbitrary verdict", ma))
		cands := []string{"javascript:alert(1)", "http://a/b", "/p"}
		v3, _, err := c.runUnitObligations(ev, um, "C03m", timeout, grace, func(r UnitResult) (*Violation, error) {
			pos := int(r.Notes["pos"].I)
			el, key := urlPositions[pos][0], urlPositions[pos][1]
			sig := fmt.Sprintf("position=%s[%s] multi-attribute", el, key)
			if seen[sig] || !budget.allow(sig) {
				return nil, nil
			}
			nt := noteTerms(r.Ob)
			n := int(r.Notes["in.n"].I)
			// ground refinement: each URL attribute value is a candidate; the stub's verdict is what the real validURL gives under AllowStandardURLs
			var idx []int
			for i := 0; i < n; i++ {
				idx = append(idx, 0)
			}
			for {
				var facts []*smt.Term
				for i := 0; i < n; i++ {
					facts = append(facts, smt.Eq(nt[fmt.Sprintf("in.v%d", i)], smt.StrC(cands[idx[i]])))
				}
				for i := 0; ; i++ {
					raw, ok := nt[fmt.Sprintf("urlstub%d.raw", i)]
					if !ok {
						break
					}
					var cs []*smt.Term
					for _, cd := range cands {
						good := cd != "javascript:alert(1)"
						cs = append(cs, smt.Implies(smt.Eq(raw, smt.StrC(cd)), smt.And(smt.Eq(nt[fmt.Sprintf("urlstub%d.ok", i)], smt.BoolC(good)), smt.Eq(nt[fmt.Sprintf("urlstub%d.out", i)], smt.StrC(cd)))))
					}
					facts = append(facts, cs...)
				}
				r2 := solveOb(um.In, r.Ob, facts, timeout, grace, fmt.Sprintf("C03m-ground-p%d", r.Ob.PathID))
				if r2.Res.Status == smt.Sat {
					in := attrsFromNotes(r2.Notes, "in")
					pol := []NativeReq{{"op": "base", "name": "Zero"}, {"op": "flag", "name": "AllowStandardURLs", "val": true}, {"op": "AllowAttrs", "attrs": []string{key, "other"}, "scope": "globally"}}
					req := NativeReq{"op": "sanitizeAttrs", "policy": pol, "element": el, "attrs": attrsToJSON(in)}
					nres, nerr := RunNative(c.Repo, c.VerifDir, []NativeReq{req}, "")
					if nerr != nil {
						return nil, nerr
					}
					got := decodeAttrs(nres[0]["attrs"])
					for _, o := range got {
						if o[0] == key && strings.HasPrefix(o[1], "javascript:") {
							ev.AddReplayed(1)
							seen[sig] = true
							return &Violation{Sig: sig, Detail: fmt.Sprintf("<%s> in=%q out=%q under AllowStandardURLs: a javascript: URL survives", el, in, got), Replay: []NativeReq{req}}, nil
						}
					}
				}
				// next combination
				k := 0
				for k < n {
					idx[k]++
					if idx[k] < len(cands) {
						break
					}
					idx[k] = 0
					k++
				}
				if k == n {
					break
				}
			}
			ev.Inconclusive(fmt.Sprintf("C03 multi-attribute counterexample at %s has no replayable instance among the candidate values", sig))
			return nil, nil
		})
		um.In.Close()
		if err != nil {
			return nil, err
		}
		viols = append(viols, v3...)
	}
	budget.report(ev, "C03")
	if reach["C03-survives"] == 0 || reach["C03-dropped"] == 0 {
		ev.Inconclusive("vacuity: the harness never keeps or never drops a URL attribute")
	}
	return viols, nil
}

func replayC03(c *Ctx, ev *Evidence, r UnitResult, sig string) (*Violation, error) {
	v, reproduced, err := replayC03x(c, ev, r, sig)
	if err == nil && !reproduced {
		ev.Inconclusive(fmt.Sprintf("C03: model at %s did not reproduce natively", sig))
	}
	return v, err
}

// c03Rewritten is what the replay's src rewriter turns every URL into.
const c03Rewritten = "https://proxy.example/r"

func replayC03x(c *Ctx, ev *Evidence, r UnitResult, sig string) (*Violation, bool, error) {
	pos := int(r.Notes["pos"].I)
	el, key := urlPositions[pos][0], urlPositions[pos][1]
	in := attrsFromNotes(r.Notes, "in")
	want := attrsFromNotes(r.Notes, "out")
	raw := fmt.Sprint(in)
	// policy from the model: scheme keys, shapes, custom check tables, scheme pattern
	var schemes []string
	for i := 0; ; i++ {
		n := "$p.scheme"
		if i > 0 {
			n = fmt.Sprintf("$p.scheme#%d", i+1)
		}
		v, ok := r.UFVals[n]
		if !ok {
			break
		}
		schemes = append(schemes, v.S)
	}
	choice := func(tag string) int {
		if v, ok := r.Ob.Ghost["choice:"+tag].(*smt.Term); ok && v.IsConst() {
			return int(v.I)
		}
		return 0
	}
	pol := []NativeReq{{"op": "base", "name": "Zero"}, {"op": "flag", "name": "RequireParseableURLs", "val": true}}
	if r.Notes["p.allowRelative"].B {
		pol = append(pol, NativeReq{"op": "flag", "name": "AllowRelativeURLs", "val": true})
	}
	allowedScheme := map[string]bool{}
	for i, s := range schemes {
		tag := "p.schemeShape"
		if i > 0 {
			tag = fmt.Sprintf("p.schemeShape#%d", i+1)
		}
		if choice(tag) == 0 {
			pol = append(pol, NativeReq{"op": "AllowURLSchemes", "schemes": []string{s}})
			allowedScheme[s] = true
		} else {
			// custom checks: replay with a check that rejects everything (the model's verdicts are
			// over the uninterpreted URL; a rejecting check is the conservative concrete instance)
			pol = append(pol, NativeReq{"op": "AllowURLSchemeWithCustomPolicy", "scheme": s, "table": map[string]bool{}})
		}
	}
	if choice("p.hasSchemeRe") == 1 {
		tab := map[string]bool{}
		for n, t := range r.Terms {
			if strings.HasPrefix(n, "@") && t.Op == "uf" && t.Name == "match.p.schemere" {
				if r.UFVals[n].B {
					tab[r.UFVals["@"+t.Args[0].String()].S] = true
				}
			}
		}
		pol = append(pol, NativeReq{"op": "AllowURLSchemesMatching", "re_table": tab})
		for s := range tab {
			allowedScheme[s] = true
		}
	}
	pol = append(pol, NativeReq{"op": "AllowAttrs", "attrs": []string{key}, "scope": "globally"})
	hasRW := choice("p.hasRewriter") == 1
	if hasRW {
		// a concrete rewriter: every URL becomes the same proxy URL
		pol = append(pol, NativeReq{"op": "RewriteSrc", "default": c03Rewritten})
	}
	req := NativeReq{"op": "sanitizeAttrs", "policy": pol, "element": el, "attrs": attrsToJSON(in)}
	nres, nerr := RunNative(c.Repo, c.VerifDir, []NativeReq{req}, "")
	if nerr != nil {
		return nil, false, nerr
	}
	got := decodeAttrs(nres[0]["attrs"])
	why := ""
	accept := func(rawv string) (bool, string, string) {
		t := strings.TrimSpace(rawv)
		u, perr := url.Parse(t)
		switch {
		case strings.ContainsAny(t, " \t\n") && !strings.HasPrefix(t, "data:"):
			return false, "", "value with embedded white space"
		case perr != nil:
			return false, "", "unparseable value"
		case u.Scheme != "" && !allowedScheme[u.Scheme]:
			return false, "", fmt.Sprintf("scheme %q is not on the allowlist %v", u.Scheme, schemes)
		case u.Scheme == "" && !r.Notes["p.allowRelative"].B:
			return false, "", "relative URL although relative URLs are not allowed"
		}
		return true, u.String(), ""
	}
	for _, o := range got {
		if o[0] != key {
			continue
		}
		ok := false
		reason := ""
		for _, a := range in {
			if a[0] != key {
				continue
			}
			acc, norm, rs := accept(a[1])
			if hasRW && key == "src" {
				// with a rewriter installed every surviving src is the rewriter's result
				if acc && o[1] == c03Rewritten {
					ok = true
				} else if acc && reason == "" {
					reason = "the src rewriter was not applied to " + norm
				}
			} else if acc && (norm == o[1] || strings.HasPrefix(strings.TrimSpace(a[1]), "data:")) {
				ok = true
			}
			if !acc && reason == "" {
				reason = rs
			}
		}
		if !ok {
			why = fmt.Sprintf("emitted %s=%q does not come from an acceptable input value (%s)", key, o[1], reason)
		}
	}
	ev.Sample(map[string]interface{}{"query": "C03 counterexample", "position": el + "[" + key + "]", "raw": raw, "policy": pol, "model_out": want, "native_out": got, "native_oracle": why})
	if why == "" {
		c.Log("C03: model at %s did not reproduce natively: raw=%q model-out=%q native-out=%q", sig, raw, want, got)
		return nil, false, nil
	}
	ev.AddReplayed(1)
	return &Violation{Sig: sig, Detail: fmt.Sprintf("<%s %s=%q> out=%q allowlist=%v relative=%v: %s", el, key, raw, got, schemes, r.Notes["p.allowRelative"].B, why), Replay: []NativeReq{req}}, true, nil
}
