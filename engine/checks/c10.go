package checks

import (
	"fmt"
	"sort"
	"strings"
	"sync"

	"bmsym/smt"
	"bmsym/sym"
)

const parseDeclsFn = "github.com/aymerick/douceur/parser.ParseDeclarations"
const removeUnicodeFn = "github.com/microcosm-cc/bluemonday.removeUnicode"
const sanitizeStylesFn = "(*github.com/microcosm-cc/bluemonday.Policy).sanitizeStyles"

// C10: inline style is filtered declaration by declaration.
func runC10(c *Ctx, ev *Evidence) ([]Violation, error) {
	timeout, grace := unitTimeouts(c)
	D, shapeLo := 2, 3
	if c.Tier == "thorough" {
		D, shapeLo = 2, 0 // (3, 0) does not finish within the hour budget
	}
	ev.Func("(*Policy).sanitizeStyles", "stringInSlice", "(*Policy).sanitizeAttrs [style routing]")
	ev.Bound("declarations_per_style", D)
	ev.Bound("rule_tables", "one symbolic property key in the element scope (explicit element rules, element-pattern rules, or none) and one in the global scope; matcher lists of the shapes [handler,regexp], [enum(2),handler] (quick) plus [handler], [enum(2)], [regexp] (thorough) with opaque handlers/patterns and symbolic enum strings")
	ev.Assume("A5: douceur's ParseDeclarations returns an error or an arbitrary list of (property, value) pairs (no relation to the source text is assumed)",
		"removeUnicode and strings.ToLower are the same uninterpreted symbols in the code and in the oracle ('lower-cased, escapes decoded'); removeUnicode's own behaviour is outside this run",
		"vendor prefixes: the oracle strips the statement's prefix list independently")
	ev.Outside("browser-exact CSS escape decoding by removeUnicode (recorded finding: the decoded character is trimmed, so 're\\20 d' is judged as 'red'); matchers that themselves accept backslashes")
	var viols []Violation
	ur, err := c.exploreUnit(ev, "HarnessC10_styles", sym.Config{Params: map[string]int{"maxDecls": D, "shapeLo": shapeLo}, Stubs: map[string]string{parseDeclsFn: "stubParseDeclarations", removeUnicodeFn: "stubRemoveUnicode"}})
	if err != nil {
		return nil, err
	}
	seen := map[string]bool{}
	budget := newReplayBudget()
	v1, reach, err := c.runUnitObligations(ev, ur, "C10", timeout, grace, func(r UnitResult) (*Violation, error) {
		sig := "site=sanitizeStyles " + r.Ob.ID
		if seen[sig] || !budget.allow(sig) {
			return nil, nil
		}
		// refinement: simple lower-case property names and values, identity decoding
		nt := noteTerms(r.Ob)
		var extra []*smt.Term
		pick := func(x *smt.Term, cands ...string) *smt.Term {
			var ds []*smt.Term
			for _, c := range cands {
				ds = append(ds, smt.Eq(x, smt.StrC(c)))
			}
			return smt.Or(ds...)
		}
		// ground facts about the two uninterpreted string functions on the
		// candidate values, taken from the real removeUnicode / strings.ToLower
		extra = append(extra, c10GroundFacts(c, ev)...)
		var propVars []*smt.Term
		smt.Walk(smt.And(append(append([]*smt.Term{}, r.Ob.PC...), r.Ob.Cond)...), func(x *smt.Term) {
			if x.Op == "var" && x.Sort == smt.String {
				switch {
				case strings.HasPrefix(x.Name, "decl.val"), strings.Contains(x.Name, ".enum"):
					if strings.HasPrefix(x.Name, "decl.val") {
						extra = append(extra, pick(x, c10ValueCands...))
					} else {
						extra = append(extra, pick(x, "red", "blue"))
					}
				case strings.HasPrefix(x.Name, "decl.prop"):
					propVars = append(propVars, x)
				case strings.HasPrefix(x.Name, "el.prop"), strings.HasPrefix(x.Name, "glob.prop"):
					extra = append(extra, pick(x, "color", "width"))
				}
			}
		})
		_ = nt
		// property names are substituted (so that the prefix stripping folds to
		// constants); the other strings are left to the solver over two values
		propCands := []string{"color", "width", "-moz-color"}
		var r2 UnitResult
		found := false
		idx := make([]int, len(propVars))
		for !found {
			sub := map[*smt.Term]*smt.Term{}
			for i, pv := range propVars {
				sub[pv] = smt.StrC(propCands[idx[i]])
			}
			ob2 := *r.Ob
			ob2.PC = nil
			for _, p := range r.Ob.PC {
				ob2.PC = append(ob2.PC, smt.Subst(p, sub))
			}
			ob2.Cond = smt.Subst(r.Ob.Cond, sub)
			ob2.Ghost = map[string]sym.Value{}
			for k, v := range r.Ob.Ghost {
				if t, ok := v.(*smt.Term); ok {
					ob2.Ghost[k] = smt.Subst(t, sub)
				} else {
					ob2.Ghost[k] = v
				}
			}
			r2 = solveOb(ur.In, &ob2, extra, timeout, grace, fmt.Sprintf("C10-ground-p%d", r.Ob.PathID))
			ev.Query(fmt.Sprintf("C10-ground-p%d", r.Ob.PathID), r2.Res)
			if r2.Res.Status == smt.Sat {
				found = true
				break
			}
			k := 0
			for k < len(idx) {
				idx[k]++
				if idx[k] < len(propCands) {
					break
				}
				idx[k] = 0
				k++
			}
			if k == len(idx) {
				break
			}
		}
		if !found {
			ev.Inconclusive(fmt.Sprintf("C10: counterexample on path %d (%s) has no replayable instance among the candidate values", r.Ob.PathID, r.Ob.ID))
			return nil, nil
		}
		v, err := replayC10(c, ev, r2, sig)
		if v != nil {
			seen[sig] = true
		}
		return v, err
	})
	ur.In.Close()
	if err != nil {
		return nil, err
	}
	viols = append(viols, v1...)
	budget.report(ev, "C10")
	if reach["C10-reach"] == 0 {
		ev.Inconclusive("vacuity: sanitizeStyles harness unreachable")
	}
	// routing
	urt, err := c.exploreUnit(ev, "HarnessC10_routing", sym.Config{Stubs: map[string]string{sanitizeStylesFn: "stubSanitizeStyles"}})
	if err != nil {
		return nil, err
	}
	for _, r := range dischargeAll(urt.In, ev, urt.Obs, nil, timeout, grace, "C10-routing") {
		switch r.Res.Status {
		case smt.Unknown:
			ev.Inconclusive("C10 routing obligation undecided: " + r.Ob.ID)
		case smt.Sat:
			mode := int(r.Notes["mode"].I)
			pol := []NativeReq{{"op": "base", "name": "Zero"}}
			switch mode {
			case 1:
				pol = append(pol, NativeReq{"op": "AllowStyles", "props": []string{"color"}, "kind": "enum", "enum": []string{"red"}, "scope": "globally"})
			case 2:
				pol = append(pol, NativeReq{"op": "AllowStyles", "props": []string{"color"}, "kind": "enum", "enum": []string{"red"}, "scope": "elements", "elements": []string{"div"}})
			case 3:
				pol = append(pol, NativeReq{"op": "AllowStyles", "props": []string{"color"}, "kind": "enum", "enum": []string{"red"}, "scope": "matching", "elre": "^d"})
			}
			pol = append(pol, NativeReq{"op": "AllowAttrs", "attrs": []string{"style"}, "scope": "globally"})
			req := NativeReq{"op": "sanitize", "policy": pol, "input": `<div style="color: red; position: fixed">x</div>`}
			nres, nerr := RunNative(c.Repo, c.VerifDir, []NativeReq{req}, "")
			if nerr != nil {
				return nil, nerr
			}
			out, _ := nres[0]["output"].(string)
			bad := mode != 0 && strings.Contains(out, "position")
			if mode == 0 {
				bad = !strings.Contains(out, "position")
			}
			if bad {
				ev.AddReplayed(1)
				viols = append(viols, Violation{Sig: "site=style-routing " + r.Ob.ID, Detail: fmt.Sprintf("mode=%d: output %q", mode, out), Replay: []NativeReq{req}})
			} else {
				ev.Inconclusive(fmt.Sprintf("C10 routing counterexample (%s, mode %d) did not reproduce with the fixed replay input", r.Ob.ID, mode))
			}
		}
	}
	urt.In.Close()
	return viols, nil
}

func replayC10(c *Ctx, ev *Evidence, r UnitResult, sig string) (*Violation, error) {
	n := int(r.Notes["decls.n"].I)
	var decls [][2]string
	var parts []string
	for i := 0; i < n; i++ {
		p, v := r.Notes[fmt.Sprintf("decl.prop%d", i)].S, r.Notes[fmt.Sprintf("decl.val%d", i)].S
		decls = append(decls, [2]string{p, v})
		parts = append(parts, p+": "+v)
	}
	expected := r.Notes["expected"].S
	scope := int(r.Notes["scope"].I)
	choice := func(tag string) int {
		if v, ok := r.Ob.Ghost["choice:"+tag].(*smt.Term); ok && v.IsConst() {
			return int(v.I)
		}
		return 0
	}
	ufTable := func(name string) map[string]bool {
		tab := map[string]bool{}
		for k, t := range r.Terms {
			if strings.HasPrefix(k, "@") && t.Op == "uf" && t.Name == name {
				if r.UFVals[k].B {
					tab[r.UFVals["@"+t.Args[0].String()].S] = true
				}
			}
		}
		return tab
	}
	strVar := func(name string) string { return r.UFVals["$"+name].S }
	mk := func(tag string, key string, shape int, scopeReq NativeReq) []NativeReq {
		var out []NativeReq
		add := func(kind string) {
			rq := NativeReq{"op": "AllowStyles", "props": []string{key}, "kind": kind}
			for k, v := range scopeReq {
				rq[k] = v
			}
			switch kind {
			case "handler":
				rq["handler_table"] = ufTable("pred." + tag + ".handler")
			case "enum":
				rq["enum"] = []string{strVar(tag + ".enum"), strVar(tag + ".enum#2")}
			case "regexp":
				rq["matching_table"] = ufTable("match." + tag + ".re")
			}
			out = append(out, rq)
		}
		switch shape {
		case 0:
			add("handler")
		case 1:
			add("enum")
		case 2:
			add("regexp")
		case 3:
			add("handler")
			add("regexp")
		default:
			add("enum")
			add("handler")
		}
		return out
	}
	pol := []NativeReq{{"op": "base", "name": "Zero"}, {"op": "AllowAttrs", "attrs": []string{"style"}, "scope": "globally"}}
	switch scope {
	case 0:
		pol = append(pol, mk("el", strVar("el.prop"), choice("el.shape"), NativeReq{"scope": "elements", "elements": []string{"div"}})...)
	case 1:
		pol = append(pol, mk("el", strVar("el.prop"), choice("el.shape"), NativeReq{"scope": "matching", "elre": "^div$"})...)
	}
	pol = append(pol, mk("glob", strVar("glob.prop"), choice("glob.shape"), NativeReq{"scope": "globally"})...)
	input := `<div style="` + strings.Join(parts, "; ") + `">x</div>`
	req := NativeReq{"op": "sanitize", "policy": pol, "input": input}
	nres, nerr := RunNative(c.Repo, c.VerifDir, []NativeReq{req}, "")
	if nerr != nil {
		return nil, nerr
	}
	got := ""
	for _, t := range decodeTokens(nres[0]["out_tokens"]) {
		if t.Type == "StartTag" && t.Data == "div" {
			for _, a := range t.Attrs {
				if a[0] == "style" {
					got = a[1]
				}
			}
		}
	}
	ev.Sample(map[string]interface{}{"query": "C10 counterexample", "decls": decls, "policy": pol, "expected_by_statement": expected, "native_style": got})
	if got == expected {
		ev.Inconclusive(fmt.Sprintf("C10: model on path %d did not reproduce natively: input=%q expected=%q got=%q", r.Ob.PathID, input, expected, got))
		return nil, nil
	}
	ev.AddReplayed(1)
	return &Violation{Sig: sig, Detail: fmt.Sprintf("input %q: style in the output is %q, the statement requires %q (policy %v)", input, got, expected, pol), Replay: []NativeReq{req}}, nil
}

// c10ValueCands: declaration values tried when a symbolic counterexample is
// made concrete. Besides plain keywords: an upper-case value and CSS escapes
// with lower- and upper-case hex digits (case folding and escape decoding do
// not commute on them).
var c10ValueCands = []string{"red", "blue", "RED", "b\\6cue", "b\\6Cue"}

var c10Facts struct {
	sync.Mutex
	done  bool
	facts []*smt.Term
}

func c10GroundFacts(c *Ctx, ev *Evidence) []*smt.Term {
	c10Facts.Lock()
	defer c10Facts.Unlock()
	if c10Facts.done {
		return c10Facts.facts
	}
	c10Facts.done = true
	set := map[string]bool{}
	for _, v := range c10ValueCands {
		set[v] = true
		set[strings.ToLower(v)] = true
	}
	var keys []string
	for k := range set {
		keys = append(keys, k)
	}
	sort.Strings(keys)
	var reqs []NativeReq
	for _, k := range keys {
		reqs = append(reqs, NativeReq{"op": "removeUnicode", "s": k})
	}
	res, err := RunNative(c.Repo, c.VerifDir, reqs, "")
	if err != nil {
		ev.Inconclusive("C10: native removeUnicode run failed: " + err.Error())
		return nil
	}
	lowerFact := func(x string) *smt.Term {
		return smt.Eq(smt.UF("lower", smt.String, smt.StrC(x)), smt.StrC(strings.ToLower(x)))
	}
	var fs []*smt.Term
	for i, k := range keys {
		out, _ := res[i]["out"].(string)
		fs = append(fs, smt.Eq(smt.UF("ru", smt.String, smt.StrC(k)), smt.StrC(out)), lowerFact(k), lowerFact(out))
	}
	c10Facts.facts = fs
	return fs
}
