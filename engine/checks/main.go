package checks

import "fmt"

func Main(args []string) int {
	fmt.Println("not implemented")
	return 2
}
