package checks

import (
	"encoding/json"
	"fmt"
	"os"
	"path/filepath"
	"sort"
	"time"
)

// Violation is a natively confirmed counterexample.
type Violation struct {
	Sig    string
	Detail string
	Replay []NativeReq
}

type checkFn func(c *Ctx, ev *Evidence) ([]Violation, error)

var registry = map[string]checkFn{
	"C01": runC01,
	"C02": runC02,
	"C03": runC03,
	"C04": runC04,
	"C05": runC05,
	"C07": runC07,
	"C06": runC06,
	"C08": runC08,
	"C09": runC09,
	"C10": runC10,
	"C11": runC11,
	"C12": runC12,
	"C13": runC13,
	"C14": runC14,
	"C15": runC15,
	"C16": runC16,
	"C17": runC17,
	"C18": runC18,
	"C19": runC19,
	"C20": runC20,
}

// Main implements `bmsym check <id> <quick|thorough>`.
func Main(args []string) int {
	if len(args) < 3 || args[0] != "check" {
		fmt.Fprintln(os.Stderr, "usage: bmsym check <id> <quick|thorough>")
		return 2
	}
	id, tier := args[1], args[2]
	if t := os.Getenv("VERIF_TIER"); t == "quick" || t == "thorough" {
		tier = t
	}
	verif := os.Getenv("VERIF_DIR")
	if verif == "" {
		verif = "/verif"
	}
	repo := os.Getenv("VERIF_REPO")
	if repo == "" {
		repo = "/repo"
	}
	fn, ok := registry[id]
	if !ok {
		fmt.Fprintf(os.Stderr, "no check for %s\n", id)
		return 2
	}
	start := time.Now()
	c := &Ctx{Repo: repo, Harness: filepath.Join(verif, "harness"), VerifDir: verif, Tier: tier, Start: start}
	c.Log = func(f string, a ...interface{}) {
		fmt.Fprintf(os.Stderr, "[%6.1fs] "+f+"\n", append([]interface{}{time.Since(start).Seconds()}, a...)...)
	}
	ev := NewEvidence(id, tier)
	evPath := filepath.Join(verif, "evidence", id+".json")
	os.Remove(evPath)
	fail := func(reason string) int {
		ev.Inconclusive(reason)
		ev.Write(evPath, start, 0)
		fmt.Printf("INCONCLUSIVE property=%s reason=%s\n", id, reason)
		return 2
	}
	if err := c.Load(); err != nil {
		return fail("load: " + err.Error())
	}
	ev.Bound("source_hash", SourceHash(repo))
	viols, err := fn(c, ev)
	if err != nil {
		return fail(err.Error())
	}
	findings, err := LoadFindings(filepath.Join(verif, "KNOWN_FINDINGS.txt"))
	if err != nil {
		return fail("known findings: " + err.Error())
	}
	sort.Slice(viols, func(i, j int) bool { return viols[i].Sig < viols[j].Sig })
	exit := 0
	newV := 0
	seenKnown := map[string]bool{}
	printed := map[string]bool{}
	for i, v := range viols {
		if printed[v.Sig] {
			continue
		}
		printed[v.Sig] = true
		if f := MatchFinding(findings, id, v.Sig); f != nil {
			if !seenKnown[v.Sig] {
				fmt.Printf("KNOWN-FINDING: property=%s %s :: %s\n", id, v.Sig, v.Detail)
				ev.Known(v.Sig + " :: " + v.Detail)
				seenKnown[v.Sig] = true
			}
			continue
		}
		newV++
		dir := filepath.Join(verif, "out", "replay", fmt.Sprintf("%s-%d", id, i))
		os.MkdirAll(dir, 0o755)
		b, _ := json.MarshalIndent(map[string]interface{}{"property": id, "signature": v.Sig, "detail": v.Detail, "native_requests": v.Replay}, "", " ")
		os.WriteFile(filepath.Join(dir, "violation.json"), b, 0o644)
		if len(v.Replay) > 0 {
			// leave a runnable replay (in.json + replay.sh) behind
			RunNative(repo, verif, v.Replay, dir)
		}
		fmt.Printf("VIOLATION property=%s replay=%s\n", id, dir)
		fmt.Printf("  %s :: %s\n", v.Sig, v.Detail)
		exit = 1
	}
	ev.mu.Lock()
	incon := append([]string(nil), ev.incon...)
	ev.mu.Unlock()
	if err := ev.Write(evPath, start, newV); err != nil {
		fmt.Fprintln(os.Stderr, "evidence:", err)
		return 2
	}
	if exit == 0 && len(incon) > 0 {
		for _, s := range incon {
			fmt.Printf("INCONCLUSIVE property=%s reason=%s\n", id, s)
		}
		return 2
	}
	if exit == 0 {
		fmt.Printf("OK property=%s tier=%s wall=%.1fs\n", id, tier, time.Since(start).Seconds())
	}
	return exit
}
