package checks

import (
	"fmt"
	"strings"

	"bmsym/smt"
	"bmsym/sym"
)

// C16: I/O failures are reported and the output stays a clean prefix.
func runC16(c *Ctx, ev *Evidence) ([]Violation, error) {
	timeout, maxK, attrs := loopTimeouts(c)
	lr, err := c.loopSetup(ev, "HarnessLoop_stepFaults", attrs)
	if err != nil {
		return nil, err
	}
	defer lr.In.Close()
	ps := lr.PS
	ev.Func("(*Policy).sanitizeWithBuff")
	ev.Bound("history", "unbounded: one inductive step from an arbitrary loop state; every write call may fail")
	ev.Bound("fault_model", "each destination write returns either (len, nil) or (0, err) chosen freely per call; the reader fails with io.EOF or an arbitrary other error at any token boundary")
	ev.Assume("a failing write accepts no bytes", "tokenizer.Err() is io.EOF exactly at clean end of input (A1)")
	// (1) failed write => return that error, no further write
	viol := func(sv *StepVars) *smt.Term {
		return smt.Or(
			smt.And(sv.Failed, smt.Not(smt.And(sv.Returned, sv.RetErr))),
			smt.And(sv.ErrOther, smt.Not(smt.And(sv.Returned, sv.RetErr))),
			smt.And(kindIs(sv.Kind, 0), smt.Not(sv.ErrOther), smt.Not(smt.And(sv.Returned, smt.Not(sv.RetErr)))),
		)
	}
	pre := stateVars(lr.T, "pre.")
	sv := lr.T.Instance(0, pre)
	r := lr.solve("C16-inductive", []*smt.Term{sv.Formula, ps.WellFormed(), viol(sv)}, []*smt.Term{sv.Sel, sv.Kind}, timeout)
	ev.Query("C16-inductive", r)
	ev.AddTransitions(len(lr.T.Paths))
	ev.Sample(map[string]interface{}{"query": "C16-inductive: arbitrary state, one token: a failed write or a non-EOF reader error does not make sanitize return a non-nil error at once", "verdict": r.Status.String(), "solver": r.Solver, "seconds": r.Seconds})
	// (2) structural: a failed write is the last write of its path, and written strings never depend on write results
	for _, p := range lr.T.Paths {
		for i, w := range p.Writes {
			if w.Failed && i != len(p.Writes)-1 {
				ev.Inconclusive(fmt.Sprintf("path %d writes again after a failed write (structural)", p.ID))
			}
			dep := false
			smt.Walk(w.S, func(x *smt.Term) {
				if x.Op == "var" && (strings.HasPrefix(x.Name, "wfail") || strings.HasPrefix(x.Name, "werr")) {
					dep = true
				}
			})
			if dep {
				ev.Inconclusive(fmt.Sprintf("path %d: written string depends on an earlier write result", p.ID))
			}
		}
	}
	rv := lr.solve("C16-reach", []*smt.Term{sv.Formula, ps.WellFormed(), sv.Failed, sv.Returned, sv.RetErr}, nil, timeout)
	ev.Query("C16-reach", rv)
	if rv.Status != smt.Sat {
		ev.Inconclusive("vacuity witness 'a write fails and the error is returned' not satisfiable: " + rv.Status.String())
	}
	// (3) sanitizeWithBuff maps any error to an empty buffer
	var viols []Violation
	in2, err := c.NewInterp(sym.Config{MaxAttrs: attrs, NoFeasCheck: true, Stubs: map[string]string{sanitizeAttrsFn: "stubSanitizeAttrs"}})
	if err != nil {
		return nil, err
	}
	defer in2.Close()
	st2, err := c.ExtractSteps(in2, "HarnessLoop_withBuff", nil)
	if err != nil {
		return nil, err
	}
	nb := 0
	for _, p := range st2.Paths {
		if p.Tok == nil || p.Tok.Kind != "Error" {
			continue
		}
		bl, ok := p.Ghost["note:buflen"].(*smt.Term)
		if !ok {
			ev.Inconclusive("withBuff path without buffer length note")
			continue
		}
		nb++
		var cond *smt.Term
		if p.Tok.ErrIs == "EOF" {
			continue
		}
		cond = smt.Eq(bl, smt.IntC(0))
		as := []*smt.Term{p.PC, smt.Not(cond)}
		var rr smt.Result
		full := smt.And(as...)
		if full.IsFalse() {
			rr = smt.Result{Status: smt.Unsat, Solver: "syntactic"}
		} else {
			in2.WithWorker(func(w *smt.Worker) {
				rr = w.Check(&smt.Query{Name: "C16-withbuff", Asserts: append([]*smt.Term{full}, sym.SideConditions([]*smt.Term{full})...), Timeout: timeout, Both: true, Grace: timeout / 2})
			})
		}
		ev.Query(fmt.Sprintf("C16-withbuff-%d", p.ID), rr)
		ev.AddTransitions(1)
		if rr.Status == smt.Sat {
			// replay: reader failing after the whole input
			req := NativeReq{"op": "iofault", "policy": []NativeReq{{"op": "base", "name": "New"}}, "input": "x", "fail_at": -1, "reader_fails": true}
			res, nerr := RunNative(c.Repo, c.VerifDir, []NativeReq{req}, "")
			if nerr != nil {
				return nil, nerr
			}
			if l, _ := res[0]["reader_buf_len"].(float64); l != 0 {
				ev.AddReplayed(1)
				viols = append(viols, Violation{Sig: "site=sanitizeWithBuff reader-error-nonempty-buffer", Detail: fmt.Sprintf("SanitizeReader returned %v bytes although the reader failed", l), Replay: []NativeReq{req}})
			} else {
				ev.Inconclusive("sanitizeWithBuff counterexample did not reproduce natively")
			}
		} else if rr.Status == smt.Unknown {
			ev.Inconclusive("C16 withBuff query undecided")
		}
	}
	if nb == 0 {
		ev.Inconclusive("no error-token path reached in sanitizeWithBuff harness")
	}
	ev.Sample(map[string]interface{}{"query": "C16-withbuff: reader error => SanitizeReader buffer empty", "error_paths": nb})
	if r.Status == smt.Unknown {
		ev.Inconclusive("C16 inductive query undecided: " + r.Note)
	}
	if r.Status != smt.Sat {
		return viols, nil
	}
	// witness: k tokens, the last step has a failed write that is not reported
	for k := 1; k <= maxK; k++ {
		steps := lr.T.Unroll(k, lr.T.InitState())
		var as []*smt.Term
		for i, s := range steps {
			as = append(as, s.Formula)
			if i < k-1 {
				as = append(as, smt.Not(s.Failed), smt.Not(s.Returned))
			}
		}
		as = append(as, ps.WellFormed(), smt.Not(ps.AllowUnsafe), viol(steps[k-1]), a1RawText(steps))
		var blocks []*smt.Term
		for m := 0; m < 6; m++ {
			vals := lr.witnessValues(steps, nil)
			for _, s := range steps {
				vals = append(vals, s.NWrites, s.Failed)
			}
			rr := lr.solve(fmt.Sprintf("C16-witness-k%d-m%d", k, m), append(append([]*smt.Term{}, as...), blocks...), vals, timeout)
			ev.Query(fmt.Sprintf("C16-witness-k%d-m%d", k, m), rr)
			if rr.Status != smt.Sat {
				break
			}
			nv := len(vals) - 2*k
			w := lr.decodeWitness(steps, rr.Values[:nv])
			failAt := 0
			for i := 0; i < k-1; i++ {
				failAt += int(rr.Values[nv+2*i].I)
			}
			last := steps[k-1]
			_ = last
			input, ok := w.html()
			blockSel := func() {
				var ds []*smt.Term
				for j, s := range steps {
					ds = append(ds, smt.Not(smt.Eq(s.Sel, smt.IntC(int64(w.Tokens[j].Sel)))))
				}
				blocks = append(blocks, smt.Or(ds...))
			}
			if ok && w.Tokens[k-1].Kind == 0 {
				// the last token is a reader error: replay the input with readers that
				// fail after it with different kinds of error values
				var reqs []NativeReq
				kinds := []string{"", "wrapped", "unexpected-eof", "wraps-eof"}
				for _, kind := range kinds {
					reqs = append(reqs, NativeReq{"op": "iofault", "policy": w.policyDSL(), "input": input, "fail_at": -1, "reader_fails": true, "reader_err": kind})
				}
				res, nerr := RunNative(c.Repo, c.VerifDir, reqs, "")
				if nerr != nil {
					return nil, nerr
				}
				for i, kind := range kinds {
					gotErr, _ := res[i]["err"].(bool)
					bl, _ := res[i]["reader_buf_len"].(float64)
					if !gotErr || bl != 0 {
						ev.AddReplayed(1)
						viols = append(viols, Violation{Sig: "site=loop reader-error-swallowed", Detail: fmt.Sprintf("input %q, reader failing after it with a %q error: SanitizeReaderToWriter error reported=%v, SanitizeReader returned %v bytes", input, kind, gotErr, bl), Replay: []NativeReq{reqs[i]}})
						return viols, nil
					}
				}
				blockSel()
				continue
			}
			if !ok || w.Tokens[k-1].Kind == 0 {
				blockSel()
				continue
			}
			req := NativeReq{"op": "iofault", "policy": w.policyDSL(), "input": input, "fail_at": failAt, "stringwriter": true}
			res, nerr := RunNative(c.Repo, c.VerifDir, []NativeReq{req}, "")
			if nerr != nil {
				return nil, nerr
			}
			gotErr, _ := res[0]["err"].(bool)
			attempted, _ := res[0]["writes_attempted"].(float64)
			accepted, _ := res[0]["accepted"].(string)
			ref, _ := res[0]["reference"].(string)
			bad := ""
			if int(attempted) > failAt {
				if !gotErr {
					bad = "a write failed but SanitizeReaderToWriter returned nil"
				} else if int(attempted) > failAt+1 {
					bad = "writes continued after a failed write"
				} else if !strings.HasPrefix(ref, accepted) {
					bad = "accepted bytes are not a prefix of the fault-free output"
				}
			}
			ev.Sample(map[string]interface{}{"query": "C16-witness", "witness": w.describe(), "fail_at_write": failAt, "native": res[0]})
			if bad != "" {
				ev.AddReplayed(1)
				viols = append(viols, Violation{Sig: "site=loop-write-error " + shapeOf(w), Detail: fmt.Sprintf("%s; write #%d fails: %s (accepted=%q reference=%q)", w.describe(), failAt, bad, accepted, ref), Replay: []NativeReq{req}})
				return viols, nil
			}
			blockSel()
		}
	}
	ev.Inconclusive(fmt.Sprintf("C16: the inductive step has a counterexample but no replayable token sequence of length <= %d was found", maxK))
	return viols, nil
}
