package checks

import (
	"fmt"
	"strings"
	"time"

	"bmsym/smt"
	"bmsym/sym"
)

// C14: sanitising always returns promptly and never panics.
//
// Part A (no panic in bluemonday's own code): every index, slice, nil-map,
// nil-dereference, type-assertion and explicit-panic site met on any path of
// the harnesses below is a built-in obligation of the interpreter.
// Part B (bounded backtracking): css.recursiveCheck is executed with opaque
// predicates and the number of predicate calls on each path is compared with
// the bound of a segmentation table, F*n(n+1)/2.
func runC14(c *Ctx, ev *Evidence) ([]Violation, error) {
	timeout, grace := unitTimeouts(c)
	ev.Outside("wall-clock time; panics and running time inside x/net/html, net/url, regexp, douceur, gorilla/css; predicate-call growth beyond the stated n")
	ev.Assume("the loop invariant skipClosingTag <=> len(closingTagToSkipStack) > 0 (proved inductively here) guards the stack index",
		"regexp.FindStringIndex returns a sub-range of the string that matches the pattern; strconv.Unquote is an uninterpreted function")
	var viols []Violation
	safety := func(in *sym.Interp, obs []*sym.Obligation, label string, extra func(ob *sym.Obligation) []*smt.Term) {
		for _, ob := range obs {
			as := append(append([]*smt.Term{}, ob.PC...), smt.Not(ob.Cond))
			if extra != nil {
				as = append(as, extra(ob)...)
			}
			as = sym.ProjectDecomps(as)
			full := smt.And(as...)
			if full.IsFalse() {
				continue
			}
			var r smt.Result
			name := fmt.Sprintf("C14-%s-%s", label, ob.ID)
			var vals []*smt.Term
			smt.Walk(full, func(x *smt.Term) {
				if x.Op == "var" && x.Sort == smt.String && !strings.Contains(x.Name, "!") {
					vals = append(vals, x)
				}
			})
			in.WithWorker(func(w *smt.Worker) {
				r = w.Check(&smt.Query{Name: name, Asserts: append([]*smt.Term{full}, sym.SideConditions([]*smt.Term{full})...), Values: vals, Timeout: timeout, Both: true, Grace: grace})
			})
			ev.Query(name+"@"+ob.Where, r)
			ev.AddTransitions(1)
			switch r.Status {
			case smt.Unknown:
				ev.Inconclusive(fmt.Sprintf("C14 %s: %s at %s undecided", label, ob.ID, ob.Where))
			case smt.Sat:
				model := map[string]string{}
				for i, v := range vals {
					model[v.Name] = r.Values[i].S
				}
				v, err := replayC14(c, ev, label, ob, model)
				if err == nil && v != nil {
					viols = append(viols, *v)
				} else if err == nil {
					ev.Inconclusive(fmt.Sprintf("C14 %s: possible %s at %s (model %v) did not reproduce natively", label, ob.ID, ob.Where, model))
				}
			}
		}
	}
	// A1: token loop with the stack invariant
	lr, err := c.loopSetup(ev, "HarnessLoop_step", 1)
	if err != nil {
		return nil, err
	}
	haveInv := lr.T.Kinds["skipClosingTag"] == "bool" && lr.T.Kinds["closingTagToSkipStack"] == "stack"
	inv := func(s map[string]sym.Value) *smt.Term {
		st := s["closingTagToSkipStack"].(*sym.SymSliceV)
		return smt.And(smt.Eq(s["skipClosingTag"].(*smt.Term), smt.Lt(smt.IntC(0), st.Len)), smt.Le(smt.IntC(0), st.Len))
	}
	if !haveInv {
		ev.Inconclusive("loop variables skipClosingTag / closingTagToSkipStack not found; stack-index safety cannot be stated")
	} else {
		if r := lr.solve("C14-inv-init", []*smt.Term{smt.Not(inv(lr.T.InitState()))}, nil, timeout); r.Status != smt.Unsat {
			ev.Inconclusive("initial loop state does not satisfy the stack invariant")
		}
		r, _ := lr.inductive("C14-inv-step", nil, func(sv *StepVars) *smt.Term { return inv(sv.Pre) }, func(sv *StepVars) *smt.Term {
			return smt.And(smt.Not(sv.Returned), smt.Not(inv(sv.Post)))
		}, timeout*2)
		ev.Query("C14-inv-step", r)
		ev.Sample(map[string]interface{}{"query": "C14-inv-step: skipClosingTag <=> stack non-empty is preserved by every loop iteration", "verdict": r.Status.String(), "seconds": r.Seconds})
		if r.Status != smt.Unsat {
			// look for a concrete token sequence from the initial state that breaks the
			// invariant and then reaches an end tag (which indexes the stack)
			lr.InputSuffix = "</zz>" // an end tag after the broken state indexes the stack
			found, details, replays, werr := c.searchWitness(lr, ev, "C14-inv", 4, nil, func(steps []*StepVars) *smt.Term {
				post := steps[len(steps)-1].Post
				return smt.And(smt.Not(steps[len(steps)-1].Returned), post["skipClosingTag"].(*smt.Term), smt.Eq(post["closingTagToSkipStack"].(*sym.SymSliceV).Len, smt.IntC(0)))
			}, func(w *seqWitness, res map[string]interface{}) (bool, string) {
				if p, ok := res["panic"]; ok {
					return true, fmt.Sprintf("Sanitize panics: %v", p)
				}
				return false, ""
			}, 5*time.Minute, nil, 6)
			lr.InputSuffix = ""
			if werr != nil {
				return nil, werr
			}
			if len(found) > 0 {
				viols = append(viols, Violation{Sig: "site=loop stack-invariant", Detail: "skipClosingTag <=> non-empty stack is broken and the stack is indexed: " + details[0], Replay: replays[0]})
			} else {
				ev.Inconclusive("stack invariant not inductive: " + r.Status.String())
			}
		}
		safety(lr.In, lr.Steps.Safety, "loop", func(ob *sym.Obligation) []*smt.Term {
			if ob.Pre == nil {
				return nil
			}
			return []*smt.Term{inv(ob.Pre)}
		})
		ev.Sample(map[string]interface{}{"query": "C14 loop safety sites", "count": len(lr.Steps.Safety)})
	}
	// paths that end in a panic without an obligation would be a modelling gap
	for _, o := range lr.Steps.Other {
		if o.Status == sym.Panicked && !strings.Contains(o.Reason, "index-out-of-range") && !strings.Contains(o.Reason, "slice-bounds") {
			ev.Inconclusive("loop path panics: " + o.Reason)
		}
	}
	lr.In.Close()
	// A2: unit harnesses
	units := []struct {
		name string
		cfg  sym.Config
	}{
		{"HarnessC14_isDataAttribute", sym.Config{SplitMax: 3}},
		{"HarnessC14_dataURI", sym.Config{}},
		{"HarnessC14_removeUnicode", sym.Config{Params: map[string]int{"maxFindIndex": 2}}},
		{"HarnessC10_styles", sym.Config{Params: map[string]int{"maxDecls": 1, "shapeLo": 3}, Stubs: map[string]string{parseDeclsFn: "stubParseDeclarations", removeUnicodeFn: "stubRemoveUnicode"}}},
		{"HarnessC03_urls", sym.Config{Params: map[string]int{"schemeEntries": 1, "maxAttrs": 1, "onlyPos": 1}}},
		{"HarnessC12_forced", sym.Config{Params: map[string]int{"maxAttrs": 2}, SplitMax: 2}},
	}
	for _, u := range units {
		ur, err := c.exploreUnit(ev, u.name, u.cfg)
		if err != nil {
			return nil, err
		}
		ev.Func(u.name + " (safety sites of the real callees)")
		// dedupe identical sites with identical conditions
		seen := map[string]bool{}
		var obs []*sym.Obligation
		for _, ob := range ur.Safety {
			k := ob.Where + "|" + ob.ID + "|" + fmt.Sprint(smt.And(append(append([]*smt.Term{}, ob.PC...), smt.Not(ob.Cond))...).ID())
			if !seen[k] {
				seen[k] = true
				obs = append(obs, ob)
			}
		}
		if len(obs) > 400 {
			obs = obs[:400]
			ev.Outside(fmt.Sprintf("%s: only the first 400 distinct safety obligations are discharged in this tier", u.name))
		}
		safety(ur.In, obs, u.name, nil)
		nPanic := 0
		for _, st := range ur.States {
			if st.Status == sym.Panicked {
				nPanic++
			}
		}
		ev.Sample(map[string]interface{}{"query": "C14 safety sites of " + u.name, "paths": len(ur.States), "obligations": len(obs), "definitely_panicking_paths": nPanic})
		ur.In.Close()
	}
	// B: backtracking bound of recursiveCheck
	v, err := c14Backtracking(c, ev, timeout)
	if err != nil {
		return nil, err
	}
	viols = append(viols, v...)
	return viols, nil
}

func replayC14(c *Ctx, ev *Evidence, label string, ob *sym.Obligation, model map[string]string) (*Violation, error) {
	var req NativeReq
	switch {
	case strings.Contains(label, "removeUnicode"):
		req = NativeReq{"op": "removeUnicode", "s": model["v"]}
	case strings.Contains(label, "isDataAttribute"):
		req = NativeReq{"op": "isDataAttribute", "s": model["key"]}
	default:
		return nil, nil
	}
	nres, err := RunNative(c.Repo, c.VerifDir, []NativeReq{req}, "")
	if err != nil {
		return nil, err
	}
	if p, ok := nres[0]["panic"].(string); ok {
		ev.AddReplayed(1)
		return &Violation{Sig: "site=" + ob.Where + " " + ob.ID, Detail: fmt.Sprintf("%v panics: %s", req, p), Replay: []NativeReq{req}}, nil
	}
	return nil, nil
}

// c14Backtracking: on every path of recursiveCheck with n parts and F opaque
// predicates, the number of predicate calls is at most F*n(n+1)/2.
func c14Backtracking(c *Ctx, ev *Evidence, timeout time.Duration) ([]Violation, error) {
	maxN := 4
	if c.Tier == "thorough" {
		maxN = 5
	}
	in, err := c.NewInterp(sym.Config{NoFeasCheck: true, MaxStates: 400000})
	if err != nil {
		return nil, err
	}
	defer in.Close()
	fn := in.FindFunc(cssPkg + ".recursiveCheck")
	if fn == nil {
		ev.Inconclusive("css.recursiveCheck not found")
		return nil, nil
	}
	ev.Func(cssPkg + ".recursiveCheck [predicate-call count per path]")
	ev.Bound("backtracking", fmt.Sprintf("n <= %d parts, F <= 2 predicates: calls <= F*n(n+1)/2 on every path", maxN))
	for n := 1; n <= maxN; n++ {
		for f := 1; f <= 2; f++ {
			if n == maxN && f == 2 && c.Tier != "thorough" {
				continue
			}
			st := in.NewState()
			var parts, funcs []sym.Value
			for i := 0; i < n; i++ {
				parts = append(parts, smt.Var(fmt.Sprintf("rc.p%d", i), smt.String))
			}
			for i := 0; i < f; i++ {
				funcs = append(funcs, &sym.FuncV{Special: "pred", Tag: fmt.Sprintf("rc.f%d", i)})
			}
			states, err := in.RunFrom(st, fn, []sym.Value{in.NewSliceValue(st, parts), in.NewSliceValue(st, funcs)})
			if err != nil {
				ev.Inconclusive(fmt.Sprintf("recursiveCheck n=%d F=%d: %v", n, f, err))
				return nil, nil
			}
			bound := f * n * (n + 1) / 2
			worst := 0
			var worstSt *sym.State
			for _, s := range states {
				if s.Status != sym.Finished {
					continue
				}
				if k := s.Calls["special:pred"]; k > worst {
					worst, worstSt = k, s
				}
			}
			ev.AddStates(len(states))
			ev.Sample(map[string]interface{}{"query": fmt.Sprintf("recursiveCheck n=%d F=%d", n, f), "paths": len(states), "max_predicate_calls": worst, "bound": bound})
			if worst > bound {
				// is that path feasible? (predicates are uninterpreted: ask the solver)
				full := smt.And(worstSt.PC...)
				var r smt.Result
				in.WithWorker(func(w *smt.Worker) {
					r = w.Check(&smt.Query{Name: "C14-backtracking", Asserts: append([]*smt.Term{full}, sym.SideConditions([]*smt.Term{full})...), Timeout: timeout, Both: true, Grace: time.Second})
				})
				ev.Query(fmt.Sprintf("C14-backtracking-n%d-f%d", n, f), r)
				if r.Status != smt.Sat {
					continue
				}
				// replay: the pumped family through Policy.Sanitize
				val := strings.Repeat("underline ", 22) + "x"
				req := NativeReq{"op": "sanitize", "policy": []NativeReq{{"op": "base", "name": "New"}, {"op": "AllowStyles", "props": []string{"text-decoration"}, "kind": "default", "scope": "globally"}, {"op": "AllowAttrs", "attrs": []string{"style"}, "scope": "globally"}, {"op": "AllowElements", "names": []string{"p"}}},
					"input": `<p style="text-decoration: ` + val + `">t</p>`}
				nres, nerr := RunNative(c.Repo, c.VerifDir, []NativeReq{req}, "")
				if nerr != nil {
					return nil, nerr
				}
				secs, _ := nres[0]["seconds"].(float64)
				ev.Sample(map[string]interface{}{"query": "C14 backtracking replay", "input_bytes": len(val) + 30, "seconds": secs})
				if secs > 2.0 {
					ev.AddReplayed(1)
					return []Violation{{Sig: "site=css.recursiveCheck exponential-backtracking", Detail: fmt.Sprintf("recursiveCheck makes %d predicate calls for n=%d parts and F=%d predicates (segmentation bound %d); natively a %d-byte style value takes %.1fs in Policy.Sanitize", worst, n, f, bound, len(val)+30, secs), Replay: []NativeReq{req}}}, nil
				}
				ev.Inconclusive(fmt.Sprintf("recursiveCheck exceeds the call bound (%d > %d at n=%d, F=%d) but the pumped input ran in %.2fs natively", worst, bound, n, f, secs))
				return nil, nil
			}
		}
	}
	return nil, nil
}
