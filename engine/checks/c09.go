package checks

import (
	"fmt"
	"strings"
	"sync"
	"time"

	"bmsym/smt"
	"bmsym/sym"
)

// C09: well-nested input yields well-nested output.
func runC09(c *Ctx, ev *Evidence) ([]Violation, error) {
	timeout, maxK, attrs := nestTimeouts(c, 5, 6)
	lr, err := c.loopSetup(ev, "HarnessLoop_step", attrs, nestNames...)
	if err != nil {
		return nil, err
	}
	defer lr.In.Close()
	ev.Bound("tokens_k", maxK)
	ev.Bound("history", fmt.Sprintf("every token sequence of length <= %d from the initial loop state, every name assignment over the name domain, every policy of the table shape", maxK))
	ev.Assume("input is well nested: every end tag closes the innermost open non-void element (prefixes of such documents for the stray-end-tag case, closed documents for the unclosed-element case); the thirteen void elements never have end tags",
		"the skip-content set contains no void element and not frame (see C08)",
		"the stack-balance check treats self-closing tags as not opening an element, on input and output alike (x/net/html tokenizer view)")
	ev.Outside("sequences longer than the bound")
	perK := make([][]Violation, maxK+1)
	errs := make([]error, maxK+1)
	var wg sync.WaitGroup
	for k := 1; k <= maxK; k++ {
		wg.Add(1)
		go func(k int) {
			defer wg.Done()
			perK[k], errs[k] = c09AtK(c, ev, lr, k, timeout)
		}(k)
	}
	wg.Wait()
	var viols []Violation
	seen := map[string]bool{}
	for k := 1; k <= maxK; k++ {
		if errs[k] != nil {
			return nil, errs[k]
		}
		for _, v := range perK[k] {
			if !seen[v.Sig] {
				seen[v.Sig] = true
				viols = append(viols, v)
			}
		}
	}
	return viols, nil
}

func c09AtK(c *Ctx, ev *Evidence, lr *LoopRun, k int, timeout time.Duration) ([]Violation, error) {
	ps := lr.PS
	var viols []Violation
	knownClass := "class=same-name-nesting-kept-and-dropped"
	seenKnown := false
	{
		steps := lr.T.Unroll(k, lr.T.InitState())
		mon := buildNestMon(ps, steps)
		var base []*smt.Term
		for _, sv := range steps {
			base = append(base, sv.Formula, smt.Not(sv.Failed), smt.Not(sv.Returned), smt.Not(kindIs(sv.Kind, 0)), smt.Not(kindIs(sv.Kind, 6)))
		}
		base = append(base, ps.WellFormed(), smt.Not(ps.AllowUnsafe), mon.WellNested, skipSetNotVoid(ps), a1RawText(steps))
		viol := smt.Or(mon.OutBad[k-1], smt.And(mon.Closed, smt.Not(smt.Eq(mon.OutDepth[k], smt.IntC(0)))))
		base = append(base, viol)
		// the known class: two simultaneously open elements of one name, one kept and one dropped
		var sn []*smt.Term
		for i := 0; i < k; i++ {
			for j := i + 1; j < k; j++ {
				sn = append(sn, smt.And(mon.IsPush[i], mon.IsPush[j], smt.Eq(steps[i].Data, steps[j].Data), mon.OpenAt(i, j),
					smt.Not(smt.Eq(onSkipStack(steps[i]), onSkipStack(steps[j])))))
			}
		}
		SN := smt.Or(sn...)
		for phase := 0; phase < 2; phase++ {
			as := append([]*smt.Term{}, base...)
			if phase == 1 {
				as = append(as, smt.Not(SN))
			}
			var blocks []*smt.Term
			decided := false
			for mi := 0; mi < 6; mi++ {
				vals := lr.witnessValues(steps, nil)
				vals = append(vals, SN)
				for j := range steps {
					vals = append(vals, mon.InDepth[j+1])
				}
				name := fmt.Sprintf("C09-unroll-k%d-phase%d-m%d", k, phase, mi)
				r := lr.solve(name, append(append([]*smt.Term{}, as...), blocks...), vals, timeout)
				ev.Query(name, r)
				ev.AddTransitions(len(lr.T.Paths) * k)
				ev.Sample(map[string]interface{}{"query": name + ": well-nested input whose output has a stray end tag or an unclosed element" + map[int]string{0: "", 1: " (outside the recorded same-name-nesting class)"}[phase], "verdict": r.Status.String(), "solver": r.Solver, "seconds": r.Seconds})
				if r.Status == smt.Unknown {
					ev.Inconclusive(fmt.Sprintf("C09 unrolling k=%d undecided: %s", k, r.Note))
					decided = true
					break
				}
				if r.Status == smt.Unsat {
					decided = true
					break
				}
				nv := len(vals) - k - 1
				w := lr.decodeWitness(steps, r.Values[:nv])
				isSN := r.Values[nv].B
				input, ok := w.html()
				blockSel := func() {
					var ds []*smt.Term
					for j, s := range steps {
						ds = append(ds, smt.Not(smt.Eq(s.Sel, smt.IntC(int64(w.Tokens[j].Sel)))))
					}
					blocks = append(blocks, smt.Or(ds...))
				}
				if !ok {
					blockSel()
					continue
				}
				// complete the prefix to a closed document
				full := input + closeOpen(w.Tokens)
				req := NativeReq{"op": "sanitize", "policy": w.policyDSL(), "input": full}
				res, nerr := RunNative(c.Repo, c.VerifDir, []NativeReq{req}, "")
				if nerr != nil {
					return nil, nerr
				}
				inToks := decodeTokens(res[0]["in_tokens"])
				outToks := decodeTokens(res[0]["out_tokens"])
				inOK, _ := nativeBalanced(inToks)
				outOK, why := nativeBalanced(outToks)
				out, _ := res[0]["output"].(string)
				ev.Sample(map[string]interface{}{"query": "C09-witness", "witness": w.describe(), "input": full, "output": out, "input_balanced": inOK, "output_balanced": outOK})
				if !inOK || outOK {
					c.Log("C09: model did not reproduce: input=%q (balanced=%v) output=%q (balanced=%v) %s", full, inOK, out, outOK, w.describe())
					blockSel()
					continue
				}
				ev.AddReplayed(1)
				sig := "site=end-tag-pairing " + shapeOf(w)
				if isSN {
					sig = knownClass
				}
				detail := fmt.Sprintf("input=%q output=%q: %s; %s", full, out, why, w.describe())
				if isSN {
					if !seenKnown {
						viols = append(viols, Violation{Sig: sig, Detail: detail, Replay: []NativeReq{req}})
						seenKnown = true
					}
					decided = true
					break // go on to phase 1: anything outside the class?
				}
				viols = append(viols, Violation{Sig: sig, Detail: detail, Replay: []NativeReq{req}})
				return viols, nil
			}
			if !decided {
				ev.Inconclusive(fmt.Sprintf("C09 unrolling k=%d phase %d: solver models kept coming but none reproduced natively", k, phase))
			}
			if phase == 0 && !seenKnown {
				break // nothing found at all at this k: phase 1 is implied
			}
		}
	}
	return viols, nil
}

// onSkipStack: the step pushed its element on the stack of closing tags to
// skip (falls back to "not written" if the loop variable is not found).
func onSkipStack(sv *StepVars) *smt.Term {
	pre, ok1 := sv.Pre["closingTagToSkipStack"].(*sym.SymSliceV)
	post, ok2 := sv.Post["closingTagToSkipStack"].(*sym.SymSliceV)
	if !ok1 || !ok2 {
		return smt.Not(sv.Written)
	}
	return smt.Eq(post.Len, smt.Add(pre.Len, smt.IntC(1)))
}

// closeOpen renders end tags for the elements a token prefix leaves open.
func closeOpen(ts []seqToken) string {
	var st []string
	isV := func(n string) bool {
		for _, v := range voidElements {
			if v == n {
				return true
			}
		}
		return false
	}
	for _, t := range ts {
		switch t.Kind {
		case 2:
			if !isV(t.Data) {
				st = append(st, t.Data)
			}
		case 3:
			if len(st) > 0 {
				st = st[:len(st)-1]
			}
		}
	}
	var sb strings.Builder
	for i := len(st) - 1; i >= 0; i-- {
		sb.WriteString("</" + st[i] + ">")
	}
	return sb.String()
}
