package checks

import (
	"fmt"
	"strings"

	"bmsym/smt"
	"bmsym/sym"
)

// C05: script and style never survive unless AllowUnsafe(true).
func runC05(c *Ctx, ev *Evidence) ([]Violation, error) {
	timeout, maxK, attrs := loopTimeouts(c)
	lr, err := c.loopSetup(ev, "HarnessLoop_step", attrs)
	if err != nil {
		return nil, err
	}
	defer lr.In.Close()
	ps := lr.PS
	notUnsafe := smt.Not(ps.AllowUnsafe)
	ev.Bound("history", "unbounded: (i) one inductive step from an arbitrary loop state; (ii) two consecutive steps from an arbitrary loop state")
	ev.Assume("A1: the tokenizer lower-cases ASCII tag names (so any letter case of script/style arrives as the lower-case literal) and delivers the body of a script/style element, start or self-closing form, as one text token directly after the tag",
		"policies are unconstrained apart from allowUnsafe=false: they may name script/style explicitly, match them by pattern, and drop them from the skip set")
	ev.Outside("non-ASCII look-alike names (different element names for a browser as well)")
	isSS := func(d *smt.Term) *smt.Term { return oneOf(d, "script", "style") }
	tagViol := func(sv *StepVars) *smt.Term {
		return smt.And(smt.Or(sv.Written, sv.RawWrite), isTag(sv.Kind), isSS(sv.Data))
	}
	r1, _ := lr.inductive("C05-tag-inductive", nil, func(sv *StepVars) *smt.Term { return notUnsafe }, tagViol, timeout)
	ev.Query("C05-tag-inductive", r1)
	ev.AddTransitions(len(lr.T.Paths))
	ev.Sample(map[string]interface{}{"query": "C05-tag-inductive: arbitrary state, a tag token named script/style is written", "verdict": r1.Status.String(), "solver": r1.Solver, "seconds": r1.Seconds})
	// (ii) body text: step 0 is a start or self-closing script/style tag, step 1 the text that follows
	pre := stateVars(lr.T, "pre.")
	s0 := lr.T.Instance(0, pre)
	s1 := lr.T.Instance(1, s0.Post)
	bodyAs := []*smt.Term{a1RawText([]*StepVars{s0, s1}), s0.Formula, s1.Formula, ps.WellFormed(), notUnsafe, smt.Not(s0.Failed), smt.Not(s1.Failed), smt.Not(s0.Returned),
		smt.Or(kindIs(s0.Kind, 2), kindIs(s0.Kind, 4)), isSS(s0.Data), kindIs(s1.Kind, 1),
		smt.Lt(smt.IntC(0), s1.NWrites)}
	r2 := lr.solve("C05-body-2step", bodyAs, []*smt.Term{s0.Kind, s0.Data, s0.Sel, s1.Sel}, timeout)
	ev.Query("C05-body-2step", r2)
	ev.AddTransitions(2 * len(lr.T.Paths))
	ev.Sample(map[string]interface{}{"query": "C05-body-2step: arbitrary state; start/self-closing script|style tag; then its text token causes a write", "verdict": r2.Status.String(), "solver": r2.Solver, "seconds": r2.Seconds})
	// vacuity: the text after an ordinary start tag is written
	rv := lr.solve("C05-reach", []*smt.Term{s0.Formula, s1.Formula, ps.WellFormed(), notUnsafe, kindIs(s0.Kind, 2), smt.Not(s0.Returned), kindIs(s1.Kind, 1), s1.Written}, nil, timeout)
	ev.Query("C05-reach", rv)
	if rv.Status != smt.Sat {
		ev.Inconclusive("vacuity witness 'text after a start tag is written' not satisfiable: " + rv.Status.String())
	}
	for _, r := range []smt.Result{r1, r2} {
		if r.Status == smt.Unknown {
			ev.Inconclusive("C05 query undecided: " + r.Note)
		}
	}
	if r1.Status != smt.Sat && r2.Status != smt.Sat {
		return nil, nil
	}
	marker := "zqmarkerqz"
	found, details, replays, err := c.searchWitness(lr, ev, "C05", maxK,
		func(steps []*StepVars) *smt.Term { return notUnsafe },
		func(steps []*StepVars) *smt.Term {
			last := steps[len(steps)-1]
			v := tagViol(last)
			if len(steps) >= 2 {
				prev := steps[len(steps)-2]
				v = smt.Or(v, smt.And(smt.Or(kindIs(prev.Kind, 2), kindIs(prev.Kind, 4)), isSS(prev.Data), kindIs(last.Kind, 1), smt.Lt(smt.IntC(0), last.NWrites),
					smt.Eq(last.Data, smt.StrC(marker))))
			}
			return v
		},
		func(w *seqWitness, res map[string]interface{}) (bool, string) {
			for _, t := range decodeTokens(res["out_tokens"]) {
				switch t.Type {
				case "StartTag", "EndTag", "SelfClosing":
					if t.Data == "script" || t.Data == "style" {
						return true, "output contains a " + t.Data + " tag"
					}
				}
			}
			out, _ := res["output"].(string)
			for i, t := range w.Tokens {
				if i > 0 && t.Kind == 1 && (w.Tokens[i-1].Kind == 2 || w.Tokens[i-1].Kind == 4) && (w.Tokens[i-1].Data == "script" || w.Tokens[i-1].Data == "style") {
					if strings.Contains(out, t.Data) {
						return true, fmt.Sprintf("text %q inside a %s element appears in the output", t.Data, w.Tokens[i-1].Data)
					}
				}
			}
			return false, ""
		}, timeout, nil, 6)
	if err != nil {
		return nil, err
	}
	if len(found) == 0 {
		ev.Inconclusive(fmt.Sprintf("C05: a step query has a counterexample but no replayable token sequence of length <= %d was found", maxK))
		return nil, nil
	}
	var out []Violation
	for i := range found {
		out = append(out, Violation{Sig: "site=loop " + shapeOf(found[i]), Detail: details[i], Replay: replays[i]})
	}
	return out, nil
}

var _ = sym.Running
