package checks

import (
	"fmt"
	"strings"

	"bmsym/smt"
	"bmsym/sym"
)

var rawTextElements = []string{"iframe", "noembed", "noframes", "noscript", "plaintext", "xmp"}

// C06: text is preserved exactly and always emitted escaped.
func runC06(c *Ctx, ev *Evidence) ([]Violation, error) {
	timeout, maxK, attrs := loopTimeouts(c)
	lr, err := c.loopSetup(ev, "HarnessLoop_step", attrs)
	if err != nil {
		return nil, err
	}
	defer lr.In.Close()
	ps := lr.PS
	ev.Bound("history", "unbounded: induction with invariant skipElementContent=false and mostRecentlyStartedToken not in {script,style}")
	ev.Assume("statement's class: the policy allows none of iframe/noembed/noframes/noscript/plaintext/xmp (by name or pattern); no input tag is named script/style or is in the skip-content set; AllowUnsafe is off",
		"equality of the concatenated text follows from per-token preservation by A1 (adjacent text tokens merge)")
	var class []*smt.Term
	class = append(class, smt.Not(ps.AllowUnsafe))
	for _, n := range rawTextElements {
		class = append(class, smt.Not(ps.Allowed(smt.StrC(n))))
	}
	inv := func(s map[string]sym.Value) *smt.Term {
		return smt.And(smt.Not(s["skipElementContent"].(*smt.Term)), smt.Not(oneOf(s["mostRecentlyStartedToken"].(*smt.Term), "script", "style")))
	}
	tokPre := func(sv *StepVars) *smt.Term {
		return smt.Implies(isTag(sv.Kind), smt.And(smt.Not(oneOf(sv.Data, "script", "style")), smt.Not(ps.InSkip(sv.Data))))
	}
	expected := func(sv *StepVars) *smt.Term {
		one := smt.IntC(1)
		e1 := smt.Implies(kindIs(sv.Kind, 1), smt.Or(sv.Written, smt.And(sv.RawWrite, sv.RawIsText)))
		e2 := smt.Implies(isTag(sv.Kind), smt.And(smt.Not(sv.RawWrite), smt.Le(sv.NWrites, one),
			smt.Implies(smt.Not(sv.Written), smt.Eq(sv.Space, ps.AddSpaces)), smt.Implies(sv.Written, smt.Not(sv.Space))))
		e3 := smt.And(smt.Implies(kindIs(sv.Kind, 5), smt.And(smt.Not(sv.RawWrite), smt.Not(sv.Space), smt.Le(sv.NWrites, one))),
			smt.Implies(kindIs(sv.Kind, 6), smt.Eq(sv.NWrites, smt.IntC(0))))
		e4 := smt.Implies(smt.Not(sv.Returned), inv(sv.Post))
		return smt.And(e1, e2, e3, e4)
	}
	if _, ok := lr.T.Kinds["skipElementContent"]; !ok {
		ev.Inconclusive("loop variable skipElementContent not found (names come from go/ssa phi comments); invariant cannot be stated")
		return nil, nil
	}
	if _, ok := lr.T.Kinds["mostRecentlyStartedToken"]; !ok {
		ev.Inconclusive("loop variable mostRecentlyStartedToken not found; invariant cannot be stated")
		return nil, nil
	}
	// base case
	if !inv(lr.T.InitState()).IsTrue() {
		ev.Inconclusive("initial loop state does not satisfy the C06 invariant syntactically")
	}
	r, _ := lr.inductive("C06-inductive", nil, func(sv *StepVars) *smt.Term {
		return smt.And(append(class, inv(sv.Pre), tokPre(sv))...)
	}, func(sv *StepVars) *smt.Term { return smt.Not(expected(sv)) }, timeout)
	ev.Query("C06-inductive", r)
	ev.AddTransitions(len(lr.T.Paths))
	ev.Sample(map[string]interface{}{"query": "C06-inductive: Inv(pre), class, token precondition, one step: text token not written exactly once escaped / tag writes something else than itself or the strip space / Inv(post) fails", "verdict": r.Status.String(), "solver": r.Solver, "seconds": r.Seconds})
	rv, _ := lr.inductive("C06-reach", nil, func(sv *StepVars) *smt.Term { return smt.And(append(class, inv(sv.Pre), tokPre(sv))...) },
		func(sv *StepVars) *smt.Term { return smt.And(kindIs(sv.Kind, 1), smt.Or(sv.Written, sv.RawWrite)) }, timeout)
	ev.Query("C06-reach", rv)
	if rv.Status != smt.Sat {
		ev.Inconclusive("vacuity witness 'a text token is written' not satisfiable: " + rv.Status.String())
	}
	switch r.Status {
	case smt.Unsat:
		return nil, nil
	case smt.Unknown:
		// the general query is too hard (typically a character-level comparison of a
		// hand-written escaper): try it with the text fixed to candidate contents
		hit := false
		for _, cand := range []string{"\r", "a\rb", "<&>\"'", "x"} {
			cand := cand
			rc, _ := lr.inductive("C06-inductive-text="+fmt.Sprintf("%q", cand), nil, func(sv *StepVars) *smt.Term {
				return smt.And(append(append([]*smt.Term{}, class...), inv(sv.Pre), tokPre(sv), kindIs(sv.Kind, 1), smt.Eq(sv.Data, smt.StrC(cand)))...)
			}, func(sv *StepVars) *smt.Term { return smt.Not(expected(sv)) }, timeout)
			ev.Query("C06-inductive-text-candidate", rc)
			if rc.Status == smt.Sat {
				hit = true
				break
			}
		}
		if !hit {
			ev.Inconclusive("C06 inductive query undecided: " + r.Note)
			return nil, nil
		}
	}
	// candidate text contents make the character-level comparison ground
	var found []*seqWitness
	var details []string
	var replays [][]NativeReq
	for _, cand := range []string{"", "\r", "a\rb", "<&>\"'", "x"} {
		cand := cand
		if len(found) > 0 {
			break
		}
		found, details, replays, err = c.searchWitness(lr, ev, "C06", maxK,
			func(steps []*StepVars) *smt.Term {
				as := append([]*smt.Term{}, class...)
				for _, sv := range steps {
					as = append(as, tokPre(sv))
					if cand != "" {
						as = append(as, smt.Implies(kindIs(sv.Kind, 1), smt.Eq(sv.Data, smt.StrC(cand))))
					}
				}
				return smt.And(as...)
			},
			func(steps []*StepVars) *smt.Term {
				last := steps[len(steps)-1]
				// only the output-visible part (the invariant is not observable)
				return smt.Not(expectedVisible(ps, last))
			},
			func(w *seqWitness, res map[string]interface{}) (bool, string) {
				in := decodeTokens(res["in_tokens"])
				out := decodeTokens(res["out_tokens"])
				return textOracle(in, out, w.Flags["addSpaces"])
			}, timeout, nil, 6)
		if err != nil {
			return nil, err
		}
	}
	if len(found) == 0 {
		ev.Inconclusive(fmt.Sprintf("C06: the inductive step has a counterexample but no replayable token sequence of length <= %d was found (possibly an unreachable pre-state: strengthen the invariant)", maxK))
		return nil, nil
	}
	var outv []Violation
	for i := range found {
		outv = append(outv, Violation{Sig: "site=loop " + shapeOf(found[i]), Detail: details[i], Replay: replays[i]})
	}
	return outv, nil
}

func expectedVisible(ps *PolicySyms, sv *StepVars) *smt.Term {
	one := smt.IntC(1)
	e1 := smt.Implies(kindIs(sv.Kind, 1), smt.Or(sv.Written, smt.And(sv.RawWrite, sv.RawIsText)))
	e2 := smt.Implies(isTag(sv.Kind), smt.And(smt.Not(sv.RawWrite), smt.Le(sv.NWrites, one),
		smt.Implies(smt.Not(sv.Written), smt.Eq(sv.Space, ps.AddSpaces)), smt.Implies(sv.Written, smt.Not(sv.Space))))
	e3 := smt.And(smt.Implies(kindIs(sv.Kind, 5), smt.And(smt.Not(sv.RawWrite), smt.Not(sv.Space), smt.Le(sv.NWrites, one))),
		smt.Implies(kindIs(sv.Kind, 6), smt.Eq(sv.NWrites, smt.IntC(0))))
	return smt.And(e1, e2, e3)
}

// textOracle is the property's observation: the text read from the output
// equals the text read from the input, plus exactly one space per removed tag
// when space insertion is on.
func textOracle(in, out []nativeTok, addSpaces bool) (bool, string) {
	// align output tags as a subsequence of the input tags
	var expect strings.Builder
	j := 0
	nextOutTag := func() *nativeTok {
		for k := j; k < len(out); k++ {
			if out[k].Type == "StartTag" || out[k].Type == "EndTag" || out[k].Type == "SelfClosing" {
				return &out[k]
			}
		}
		return nil
	}
	for _, t := range in {
		switch t.Type {
		case "Text":
			expect.WriteString(t.Data)
		case "StartTag", "EndTag", "SelfClosing":
			o := nextOutTag()
			if o != nil && o.Type == t.Type && o.Data == t.Data {
				// kept: advance j past it
				for j < len(out) {
					isTag := out[j].Type == "StartTag" || out[j].Type == "EndTag" || out[j].Type == "SelfClosing"
					j++
					if isTag {
						break
					}
				}
			} else if addSpaces {
				expect.WriteString(" ")
			}
		}
	}
	var got strings.Builder
	for _, t := range out {
		if t.Type == "Text" {
			got.WriteString(t.Data)
		}
	}
	if got.String() != expect.String() {
		return true, fmt.Sprintf("text read from the output %q differs from the expected %q", got.String(), expect.String())
	}
	return false, ""
}
