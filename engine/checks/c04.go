package checks

import (
	"fmt"
	"sort"
	"strings"
	"time"

	"bmsym/smt"
	"bmsym/sym"
)

var c04Names = []string{"a", "area", "img", "blockquote", "q", "del", "ins", "map", "details", "time", "bdo", "li", "ol", "td", "table", "col", "meter", "progress", "p", "div", "b", "br",
	"script", "style", "iframe", "object", "embed", "form", "input", "button", "select", "textarea", "base", "meta", "link", "svg", "math", "noscript", "xmp", "plaintext", "title", "template", "video", "audio", "x-y", "zz"}

// C04: shipped policies are safe.
func runC04(c *Ctx, ev *Evidence) ([]Violation, error) {
	timeout, grace := unitTimeouts(c)
	ev.Func("StrictPolicy", "UGCPolicy", "AllowStandardAttributes", "AllowStandardURLs", "AllowLists", "AllowTables", "AllowImages", "NewPolicy", "addDefaultElementsWithoutAttrs", "addDefaultSkipElementContent",
		"(*Policy).sanitize [token loop under the concrete shipped policies]", "(*Policy).sanitizeAttrs and (*Policy).validURL [under the concrete UGC policy]")
	ev.Bound("policies", "the real UGCPolicy() and StrictPolicy() objects, obtained by executing the constructors inside the interpreter")
	ev.Bound("element_names", fmt.Sprintf("token names drawn from %d names: vocabulary representatives, every forbidden element of the statement, and generic names", len(c04Names)))
	ev.Bound("attributes", "one free attribute (any key satisfying A1, any value) on each of the vocabulary elements except del/ins (their cite combines a value pattern with URL validation; the solvers do not decide that combination in time - it is covered generically by C02 and C03); attribute values without embedded white space (validURL's white-space rule is C03's subject)")
	ev.Assume("the UGC vocabulary table in harness/root/shipped.go is written from the documentation of UGCPolicy",
		"A2: an HTML5 tree builder creates elements only for start tags in the token stream (plus implied wrappers); the vocabulary has no raw-text, RCDATA, foreign-content or template element (checked: none of them is in the table)",
		"A3 for URL attributes")
	ev.Outside("the converse for attribute values (a document in the vocabulary passes unchanged) is covered for elements by C07's generic result, not re-instantiated here; time/del/ins datetime rely on C19")
	var viols []Violation
	// (1) tables and switches
	ut, err := c.exploreUnit(ev, "HarnessC04_tables", sym.Config{})
	if err != nil {
		return nil, err
	}
	v0, _, err := c.runUnitObligations(ev, ut, "C04", timeout, grace, func(r UnitResult) (*Violation, error) {
		return c04Replay(c, ev, "site=constructor "+r.Ob.ID, r.Ob.ID)
	})
	// definite failures have Cond=false and never reach onSat through a solver: collect them
	for _, ob := range ut.Obs {
		if ob.Kind == "assert" && ob.Cond.IsFalse() {
			v, e := c04Replay(c, ev, "site=constructor "+ob.ID, ob.ID)
			if e != nil {
				return nil, e
			}
			if v != nil {
				v0 = append(v0, *v)
			}
		}
	}
	ut.In.Close()
	if err != nil {
		return nil, err
	}
	viols = append(viols, v0...)
	// (2) element level: the loop under the concrete policies
	for _, h := range []string{"HarnessC04_ugcLoop", "HarnessC04_strictLoop"} {
		in, err := c.NewInterp(sym.Config{MaxAttrs: 1, TokenNames: c04Names, NoFeasCheck: true, MaxStates: 200000, UnwindSym: 4, Stubs: map[string]string{sanitizeAttrsFn: "stubSanitizeAttrs"}})
		if err != nil {
			return nil, err
		}
		steps, err := c.ExtractSteps(in, h, nil)
		if err != nil {
			in.Close()
			return nil, err
		}
		ev.AddStates(len(steps.Paths))
		nObs := 0
		for _, ob := range steps.HarnessObs {
			if ob.Kind != "assert" {
				continue
			}
			nObs++
			full := smt.And(append(append([]*smt.Term{}, ob.PC...), smt.Not(ob.Cond))...)
			if full.IsFalse() {
				continue
			}
			var r smt.Result
			in.WithWorker(func(w *smt.Worker) {
				r = w.Check(&smt.Query{Name: "C04-" + ob.ID, Asserts: append([]*smt.Term{full}, sym.SideConditions([]*smt.Term{full})...), Timeout: timeout, Both: true, Grace: grace})
			})
			ev.Query(fmt.Sprintf("C04-%s-%s-p%d", h, ob.ID, ob.PathID), r)
			ev.AddTransitions(1)
			switch r.Status {
			case smt.Unknown:
				ev.Inconclusive("C04 loop obligation undecided: " + ob.ID)
			case smt.Sat:
				v, e := c04Replay(c, ev, "site=loop "+ob.ID, ob.ID)
				if e != nil {
					in.Close()
					return nil, e
				}
				if v != nil {
					viols = append(viols, *v)
				} else {
					ev.Inconclusive("C04: " + ob.ID + " fails symbolically under " + h + " but the native probe documents pass")
				}
			}
		}
		ev.Sample(map[string]interface{}{"query": "C04 loop under " + h, "paths": len(steps.Paths), "write-site assertions": nObs})
		in.Close()
	}
	// (3) attribute level
	ua, err := c.exploreUnit(ev, "HarnessC04_ugcAttrs", sym.Config{ForceFeas: true, BranchTimeout: 3 * time.Second})
	if err != nil {
		return nil, err
	}
	seen := map[string]bool{}
	budget := newReplayBudget()
	v3, reach, err := c.runUnitObligations(ev, ua, "C04", timeout, grace, func(r UnitResult) (*Violation, error) {
		var failed []string
		for k, v := range r.Notes {
			if strings.HasPrefix(k, "c:") && !v.B {
				failed = append(failed, strings.TrimPrefix(k, "c:"))
			}
		}
		sort.Strings(failed)
		el := r.Notes["el"].S
		sig := fmt.Sprintf("element=%s conjunct=%s", el, strings.Join(failed, "+"))
		if seen[sig] || !budget.allow(sig) {
			return nil, nil
		}
		// ground refinement for URL values
		nt := noteTerms(r.Ob)
		var r2 UnitResult
		found := false
		for _, cand := range append([]string{"v"}, urlCandidates...) {
			r2 = solveOb(ua.In, r.Ob, urlCandidateFacts(nt["in.v0"], cand), timeout, grace, "C04-ground")
			if r2.Res.Status == smt.Sat {
				found = true
				break
			}
		}
		if !found {
			ev.Inconclusive("C04: counterexample at " + sig + " has no concrete candidate value")
			return nil, nil
		}
		in := attrsFromNotes(r2.Notes, "in")
		req := NativeReq{"op": "sanitizeAttrs", "policy": []NativeReq{{"op": "base", "name": "UGC"}}, "element": el, "attrs": attrsToJSON(in)}
		nres, nerr := RunNative(c.Repo, c.VerifDir, []NativeReq{req}, "")
		if nerr != nil {
			return nil, nerr
		}
		got := decodeAttrs(nres[0]["attrs"])
		why := c04AttrOracle(el, got)
		ev.Sample(map[string]interface{}{"query": "C04 counterexample", "element": el, "in": in, "native_out": got, "native_oracle": why})
		if why == "" {
			ev.Inconclusive(fmt.Sprintf("C04: model at %s did not reproduce natively (in=%q out=%q)", sig, in, got))
			return nil, nil
		}
		ev.AddReplayed(1)
		seen[sig] = true
		return &Violation{Sig: sig, Detail: fmt.Sprintf("UGCPolicy: <%s> in=%q out=%q: %s", el, in, got, why), Replay: []NativeReq{req}}, nil
	})
	ua.In.Close()
	if err != nil {
		return nil, err
	}
	viols = append(viols, v3...)
	budget.report(ev, "C04")
	// (3b) the URL attribute given twice
	ud, err := c.exploreUnit(ev, "HarnessC04_ugcDup", sym.Config{ForceFeas: true, BranchTimeout: 3 * time.Second})
	if err != nil {
		return nil, err
	}
	seenD := map[string]bool{}
	v3b, reachD, err := c.runUnitObligations(ev, ud, "C04", timeout, grace, func(r UnitResult) (*Violation, error) {
		el := r.Notes["el"].S
		sig := "element=" + el + " duplicate-url-attribute"
		if seenD[sig] {
			return nil, nil
		}
		nt := noteTerms(r.Ob)
		short := []string{"javascript:alert(1)", "http://a/b", "/p", "data:text/html,<x>", "x:y"}
		replays := 0
		for _, c0 := range short {
			for _, c1 := range short {
				facts := append(urlCandidateFacts(nt["in.v0"], c0), urlCandidateFacts(nt["in.v1"], c1)...)
				r2 := solveOb(ud.In, r.Ob, facts, timeout, grace, "C04-dup-ground")
				if r2.Res.Status != smt.Sat {
					continue
				}
				replays++
				in := attrsFromNotes(r2.Notes, "in")
				req := NativeReq{"op": "sanitizeAttrs", "policy": []NativeReq{{"op": "base", "name": "UGC"}}, "element": el, "attrs": attrsToJSON(in)}
				nres, nerr := RunNative(c.Repo, c.VerifDir, []NativeReq{req}, "")
				if nerr != nil {
					return nil, nerr
				}
				got := decodeAttrs(nres[0]["attrs"])
				why := c04AttrOracle(el, got)
				ev.Sample(map[string]interface{}{"query": "C04 duplicate-attribute counterexample", "element": el, "in": in, "native_out": got, "native_oracle": why})
				if why != "" {
					ev.AddReplayed(1)
					seenD[sig] = true
					return &Violation{Sig: sig, Detail: fmt.Sprintf("UGCPolicy: <%s> in=%q out=%q: %s", el, in, got, why), Replay: []NativeReq{req}}, nil
				}
				if replays >= 6 {
					break
				}
			}
			if replays >= 6 {
				break
			}
		}
		ev.Inconclusive(fmt.Sprintf("C04: counterexample at %s: %d concrete instance(s), none reproduced natively", sig, replays))
		return nil, nil
	})
	ud.In.Close()
	if err != nil {
		return nil, err
	}
	viols = append(viols, v3b...)
	if reachD["C04-dup-reach"] == 0 {
		ev.Inconclusive("vacuity: duplicate-attribute harness unreachable")
	}
	if reach["C04-attrs-reach"] == 0 {
		ev.Inconclusive("vacuity: attribute harness unreachable")
	}
	return viols, nil
}

var c04DocAttrs = map[string][]string{
	"details": {"open"}, "blockquote": {"cite"}, "a": {"href", "rel"}, "map": {"name"}, "area": {"alt", "coords", "href", "rel", "shape"},
	"img": {"usemap", "align", "alt", "height", "width", "src"}, "q": {"cite"}, "time": {"datetime"}, "bdi": {"dir"}, "bdo": {"dir"},
	"del": {"cite", "datetime"}, "ins": {"cite", "datetime"}, "ol": {"type"}, "ul": {"type"}, "li": {"type", "value"},
	"table": {"height", "width", "summary"}, "col": {"align", "height", "width", "span", "valign"}, "colgroup": {"align", "height", "width", "span", "valign"},
	"thead": {"align", "valign"}, "tr": {"align", "valign"}, "tbody": {"align", "valign"}, "tfoot": {"align", "valign"},
	"td":    {"abbr", "align", "colspan", "rowspan", "headers", "height", "width", "scope", "valign", "nowrap"},
	"th":    {"abbr", "align", "colspan", "rowspan", "headers", "height", "width", "scope", "valign", "nowrap"},
	"meter": {"value", "min", "max", "low", "high", "optimum"}, "progress": {"value", "max"},
}

func c04AttrOracle(el string, out [][2]string) string {
	for _, o := range out {
		ok := false
		for _, g := range []string{"dir", "lang", "id", "title"} {
			if o[0] == g {
				ok = true
			}
		}
		for _, a := range c04DocAttrs[el] {
			if o[0] == a {
				ok = true
			}
		}
		if !ok {
			return fmt.Sprintf("attribute %q is not in the documented vocabulary of <%s>", o[0], el)
		}
		if o[0] == "style" || strings.HasPrefix(o[0], "on") {
			return "style or event-handler attribute " + o[0]
		}
		if o[0] == "href" || o[0] == "src" || (o[0] == "cite") {
			v := strings.ToLower(strings.TrimSpace(o[1]))
			if i := strings.Index(v, ":"); i > 0 && !strings.ContainsAny(v[:i], "/?#") {
				switch v[:i] {
				case "http", "https", "mailto":
				default:
					return fmt.Sprintf("URL attribute %s=%q has scheme %q", o[0], o[1], v[:i])
				}
			}
		}
	}
	return ""
}

// c04Replay runs probe documents through the real shipped policies.
func c04Replay(c *Ctx, ev *Evidence, sig, what string) (*Violation, error) {
	var pb strings.Builder
	pb.WriteString(`<p>a</p><!--h--><!DOCTYPE html><img src="javascript:alert(1)"><a href="data:text/html,x" onclick="y" style="z">i</a>`)
	for _, el := range c04Names {
		// every candidate element bare and with a global attribute (so that elements that are only kept with attributes show up)
		fmt.Fprintf(&pb, `<%s>t</%s><%s id="i" title="t">u</%s>`, el, el, el, el)
		// comments, doctypes and markup in the element's content (skipped-content elements take another route through the loop)
		fmt.Fprintf(&pb, `<%s><!--c--><!DOCTYPE d><b>w</b></%s>`, el, el)
	}
	probe := pb.String()
	reqs := []NativeReq{{"op": "sanitize", "policy": []NativeReq{{"op": "base", "name": "UGC"}}, "input": probe}, {"op": "sanitize", "policy": []NativeReq{{"op": "base", "name": "Strict"}}, "input": probe}}
	nres, err := RunNative(c.Repo, c.VerifDir, reqs, "")
	if err != nil {
		return nil, err
	}
	bad := ""
	for _, t := range decodeTokens(nres[0]["out_tokens"]) {
		switch t.Type {
		case "StartTag", "EndTag", "SelfClosing":
			if _, ok := c04DocAttrs[t.Data]; !ok {
				known := false
				for _, n := range []string{"article", "aside", "figure", "section", "summary", "h1", "h2", "h3", "h4", "h5", "h6", "hgroup", "br", "div", "hr", "p", "span", "wbr", "abbr", "acronym", "cite", "code", "dfn", "em", "figcaption", "mark", "s", "samp", "strong", "sub", "sup", "var", "b", "i", "pre", "small", "strike", "tt", "u", "rp", "rt", "ruby", "dl", "dt", "dd", "caption"} {
					if n == t.Data {
						known = true
					}
				}
				if !known {
					bad = "UGCPolicy emits <" + t.Data + ">"
				}
			}
			var as [][2]string
			as = append(as, t.Attrs...)
			if w := c04AttrOracle(t.Data, as); w != "" && bad == "" {
				bad = "UGCPolicy: " + w
			}
		case "Comment", "Doctype":
			bad = "UGCPolicy emits a comment or doctype"
		}
	}
	for _, t := range decodeTokens(nres[1]["out_tokens"]) {
		if t.Type != "Text" {
			bad = "StrictPolicy emits markup: " + t.Type + " " + t.Data
		}
	}
	ev.Sample(map[string]interface{}{"query": "C04 probe", "what": what, "ugc": nres[0]["output"], "strict": nres[1]["output"], "verdict": bad})
	if bad == "" {
		return nil, nil
	}
	ev.AddReplayed(1)
	return &Violation{Sig: sig, Detail: fmt.Sprintf("%s (%s)", bad, what), Replay: reqs}, nil
}
