package checks

import (
	"fmt"
	"sort"
	"strings"
	"sync"
	"time"

	"bmsym/smt"
	"bmsym/sym"
)

// TRel is the step relation of sanitize's token loop as a set of feasible
// paths, instantiable at any unrolling depth.
type TRel struct {
	Paths    []*StepPath
	Names    []string          // loop-carried variable names, sorted
	Kinds    map[string]string // "bool","int","string","stack"
	in       *sym.Interp
	Dropped  int // infeasible paths
	Unknown  int // feasibility unknown (kept)
	MaxAttrs int
}

func isPolicyName(n string) bool {
	return strings.HasPrefix(n, "p.") || strings.HasPrefix(n, "match.p.")
}

// BuildTRel filters the syntactic step paths by feasibility.
func (c *Ctx) BuildTRel(s *Steps, timeout time.Duration) (*TRel, error) {
	t := &TRel{Kinds: map[string]string{}, in: s.Interp}
	if len(s.Paths) == 0 {
		return nil, fmt.Errorf("no step paths")
	}
	for n, v := range s.Paths[0].Pre {
		t.Names = append(t.Names, n)
		switch x := v.(type) {
		case *smt.Term:
			switch x.Sort {
			case smt.Bool:
				t.Kinds[n] = "bool"
			case smt.Int:
				t.Kinds[n] = "int"
			case smt.String:
				t.Kinds[n] = "string"
			}
		case *sym.SymSliceV:
			t.Kinds[n] = "stack"
		default:
			return nil, fmt.Errorf("loop variable %s has unsupported kind %T", n, v)
		}
	}
	sort.Strings(t.Names)
	keep := make([]int, len(s.Paths))
	var wg sync.WaitGroup
	for i, p := range s.Paths {
		wg.Add(1)
		go func(i int, p *StepPath) {
			defer wg.Done()
			if p.PC.IsTrue() || timeout == 0 {
				keep[i] = 1
				return
			}
			var r smt.Result
			as := []*smt.Term{p.PC}
			as = append(as, sym.SideConditions(as)...)
			s.Interp.WithWorker(func(w *smt.Worker) {
				r = w.Check(&smt.Query{Name: fmt.Sprintf("stepfeas-%d", p.ID), Asserts: as, Timeout: timeout})
			})
			switch r.Status {
			case smt.Sat:
				keep[i] = 1
			case smt.Unknown:
				keep[i] = 2
			}
		}(i, p)
	}
	wg.Wait()
	for i, p := range s.Paths {
		switch keep[i] {
		case 0:
			t.Dropped++
		case 2:
			t.Unknown++
			t.Paths = append(t.Paths, p)
		default:
			t.Paths = append(t.Paths, p)
		}
	}
	return t, nil
}

// StepVars are the observable variables of one unrolled step.
type StepVars struct {
	J         int
	Sel       *smt.Term // which path
	Kind      *smt.Term // token kind code (Int)
	Data      *smt.Term // token data (String); "" for Error
	NAttr     *smt.Term // number of input attributes
	Written   *smt.Term // Bool: the current token's serialisation was written and accepted
	Space     *smt.Term // Bool: a single space was written
	RawWrite  *smt.Term // Bool: something else was written
	Failed    *smt.Term // Bool: a write failed in this step
	Returned  *smt.Term // Bool
	RetErr    *smt.Term // Bool
	OutNAttr  *smt.Term // number of attributes on the written tag
	NWrites   *smt.Term // number of write calls in the step
	ErrOther  *smt.Term // Bool: Error token with a non-EOF error
	Survive   *smt.Term // Bool: stubbed sanitizeAttrs kept an attribute
	RawIsText *smt.Term // Bool: the raw write equals the escaped serialisation of the text token
	Pre, Post map[string]sym.Value
	Formula   *smt.Term
	NGroups   int
}

func stateVars(t *TRel, prefix string) map[string]sym.Value {
	m := map[string]sym.Value{}
	for _, n := range t.Names {
		switch t.Kinds[n] {
		case "bool":
			m[n] = smt.Var(prefix+n, smt.Bool)
		case "int":
			m[n] = smt.Var(prefix+n, smt.Int)
		case "string":
			m[n] = smt.Var(prefix+n, smt.String)
		case "stack":
			m[n] = &sym.SymSliceV{Arr: smt.Var(prefix+n+".arr", smt.ArrIS), Len: smt.Var(prefix+n+".len", smt.Int)}
		}
	}
	return m
}

// InitState converts the concrete initial loop state into state terms.
func (t *TRel) InitState() map[string]sym.Value {
	m := map[string]sym.Value{}
	init := t.Paths[0].Init
	for _, n := range t.Names {
		switch v := init[n].(type) {
		case *smt.Term:
			m[n] = v
		case sym.SliceV:
			m[n] = &sym.SymSliceV{Arr: smt.Var("emptystack", smt.ArrIS), Len: smt.IntC(0)}
		default:
			panic(fmt.Sprintf("initial value of %s has kind %T", n, v))
		}
	}
	return m
}

// Instance instantiates the relation for step j from the given pre-state.
func (t *TRel) Instance(j int, pre map[string]sym.Value) *StepVars {
	pf := fmt.Sprintf("s%d.", j)
	sv := &StepVars{J: j, Pre: pre,
		Sel:  smt.Var(pf+"sel", smt.Int),
		Data: smt.Var(pf+"tok.data", smt.String),
	}
	type alt struct {
		cond                                          *smt.Term
		kind, nattr, outn, nwrites                    int64
		errOther                                      bool
		rawIsText                                     *smt.Term
		written, space, raw, failed, returned, reterr bool
		post                                          map[string]sym.Value
		dataEq                                        *smt.Term
	}
	var alts []alt
	for _, p := range t.Paths {
		sub := map[*smt.Term]*smt.Term{}
		for _, n := range t.Names {
			switch pv := p.Pre[n].(type) {
			case *smt.Term:
				sub[pv] = pre[n].(*smt.Term)
			case *sym.SymSliceV:
				ps := pre[n].(*sym.SymSliceV)
				sub[pv.Arr] = ps.Arr
				sub[pv.Len] = ps.Len
			}
		}
		if p.Tok != nil {
			if p.Tok.Data != nil && !p.Tok.Data.IsConst() {
				sub[p.Tok.Data] = sv.Data
			}
			for k := range p.Tok.Keys {
				sub[p.Tok.Keys[k]] = smt.Var(fmt.Sprintf("%stok.k%d", pf, k), smt.String)
				sub[p.Tok.Vals[k]] = smt.Var(fmt.Sprintf("%stok.v%d", pf, k), smt.String)
			}
		}
		// remaining step-local variables: shared across paths by base name
		// (paths are mutually exclusive, so sharing is sound); several locals
		// with one base name inside a path are kept apart by an ordinal.
		ord := map[string]int{}
		local := func(x *smt.Term) {
			smt.Walk(x, func(v *smt.Term) {
				if v.Op == "var" && !isPolicyName(v.Name) && v.Name != "emptystack" {
					if _, ok := sub[v]; !ok {
						nm := v.Name
						if k := strings.IndexByte(nm, '!'); k >= 0 {
							nm = nm[:k]
						}
						ord[nm]++
						if ord[nm] > 1 {
							nm = fmt.Sprintf("%s~%d", nm, ord[nm])
						}
						sub[v] = smt.Var(pf+nm, v.Sort)
					}
				}
			})
		}
		local(p.PC)
		for _, w := range p.Writes {
			local(w.S)
		}
		a := alt{cond: smt.Subst(p.PC, sub)}
		if p.Tok != nil {
			a.kind = int64(tokenKind(p.Tok.Kind))
			a.nattr = int64(len(p.Tok.Keys))
			a.errOther = p.Tok.Kind == "Error" && p.Tok.ErrIs != "EOF"
			if p.Tok.Data == nil {
				a.dataEq = smt.Eq(sv.Data, smt.StrC(""))
			} else if p.Tok.Data.IsConst() {
				a.dataEq = smt.Eq(sv.Data, p.Tok.Data)
			}
		}
		a.nwrites = int64(len(p.Writes))
		// the bytes accepted by the destination in this step: the concatenation
		// of the successful writes
		var okWrites []*smt.Term
		for _, w := range p.Writes {
			if w.Failed {
				a.failed = true
				continue
			}
			okWrites = append(okWrites, smt.Subst(w.S, sub))
		}
		if len(okWrites) > 0 {
			ws := smt.Concat(okWrites...)
			if len(okWrites) == 1 {
				ws = okWrites[0]
			}
			switch {
			case ws.Op == "uf" && strings.HasPrefix(ws.Name, "tokstr.") && (ws.Args[0] == sv.Data || ws.Args[0] == p.Tok.Data) && strings.HasPrefix(ws.Name, "tokstr."+p.Tok.Kind+"."):
				a.written = true
				a.outn = int64((len(ws.Args) - 1) / 2)
			case ws.IsConst() && ws.S == " ":
				a.space = true
			default:
				a.raw = true
				if p.Tok != nil && p.Tok.Kind == "Text" && p.Tok.Data != nil {
					a.rawIsText = smt.Eq(ws, smt.UF("tokstr.Text.0", smt.String, smt.Subst(p.Tok.Data, sub)))
				}
			}
		}
		a.returned, a.reterr = p.Returned, p.RetErr
		if !p.Returned {
			a.post = map[string]sym.Value{}
			for _, n := range t.Names {
				switch pv := p.Post[n].(type) {
				case *smt.Term:
					local(pv)
					a.post[n] = smt.Subst(pv, sub)
				case *sym.SymSliceV:
					local(pv.Arr)
					local(pv.Len)
					a.post[n] = &sym.SymSliceV{Arr: smt.Subst(pv.Arr, sub), Len: smt.Subst(pv.Len, sub)}
				case sym.SliceV:
					a.post[n] = &sym.SymSliceV{Arr: smt.Var("emptystack", smt.ArrIS), Len: smt.IntC(0)}
				default:
					panic(fmt.Sprintf("post value of %s has kind %T", n, pv))
				}
			}
		}
		alts = append(alts, a)
	}
	// merge paths that agree on every observable and on the post state
	{
		idx := map[string]int{}
		var merged []alt
		for _, a := range alts {
			var sb strings.Builder
			fmt.Fprintf(&sb, "%d|%d|%d|%d|%v|%v|%v|%v|%v|%v|%v|", a.kind, a.nattr, a.outn, a.nwrites, a.errOther, a.written, a.space, a.raw, a.failed, a.returned, a.reterr)
			if a.dataEq != nil {
				fmt.Fprintf(&sb, "E%d|", a.dataEq.ID())
			}
			if a.rawIsText != nil {
				fmt.Fprintf(&sb, "T%d|", a.rawIsText.ID())
			}
			if a.post != nil {
				for _, nme := range t.Names {
					switch pv := a.post[nme].(type) {
					case *smt.Term:
						fmt.Fprintf(&sb, "%d,", pv.ID())
					case *sym.SymSliceV:
						fmt.Fprintf(&sb, "%d:%d,", pv.Arr.ID(), pv.Len.ID())
					}
				}
			}
			k := sb.String()
			if i, ok := idx[k]; ok {
				merged[i].cond = smt.Or(merged[i].cond, a.cond)
				continue
			}
			idx[k] = len(merged)
			merged = append(merged, a)
		}
		alts = merged
	}
	sv.NGroups = len(alts)
	n := len(alts)
	var cs []*smt.Term
	cs = append(cs, smt.Le(smt.IntC(0), sv.Sel), smt.Lt(sv.Sel, smt.IntC(int64(n))))
	iteI := func(f func(a alt) int64) *smt.Term {
		r := smt.IntC(f(alts[n-1]))
		for i := n - 2; i >= 0; i-- {
			r = smt.Ite(smt.Eq(sv.Sel, smt.IntC(int64(i))), smt.IntC(f(alts[i])), r)
		}
		return r
	}
	iteB := func(f func(a alt) bool) *smt.Term {
		var ds []*smt.Term
		for i, a := range alts {
			if f(a) {
				ds = append(ds, smt.Eq(sv.Sel, smt.IntC(int64(i))))
			}
		}
		return smt.Or(ds...)
	}
	for i, a := range alts {
		sel := smt.Eq(sv.Sel, smt.IntC(int64(i)))
		cs = append(cs, smt.Implies(sel, a.cond))
		if a.dataEq != nil {
			cs = append(cs, smt.Implies(sel, a.dataEq))
		}
	}
	sv.Kind = iteI(func(a alt) int64 { return a.kind })
	sv.NAttr = iteI(func(a alt) int64 { return a.nattr })
	sv.OutNAttr = iteI(func(a alt) int64 { return a.outn })
	sv.NWrites = iteI(func(a alt) int64 { return a.nwrites })
	sv.ErrOther = iteB(func(a alt) bool { return a.errOther })
	sv.Survive = smt.Var(pf+"attrsSurvive", smt.Bool)
	{
		var ds []*smt.Term
		for i, a := range alts {
			if a.rawIsText != nil {
				ds = append(ds, smt.And(smt.Eq(sv.Sel, smt.IntC(int64(i))), a.rawIsText))
			}
		}
		sv.RawIsText = smt.Or(ds...)
	}
	sv.Written = iteB(func(a alt) bool { return a.written })
	sv.Space = iteB(func(a alt) bool { return a.space })
	sv.RawWrite = iteB(func(a alt) bool { return a.raw })
	sv.Failed = iteB(func(a alt) bool { return a.failed })
	sv.Returned = iteB(func(a alt) bool { return a.returned })
	sv.RetErr = iteB(func(a alt) bool { return a.reterr })
	// post state: fresh variables constrained per path (avoids giant ite chains over arrays)
	sv.Post = stateVars(t, fmt.Sprintf("s%d.post.", j))
	for i, a := range alts {
		if a.post == nil {
			continue
		}
		sel := smt.Eq(sv.Sel, smt.IntC(int64(i)))
		var eqs []*smt.Term
		for _, nme := range t.Names {
			switch pv := a.post[nme].(type) {
			case *smt.Term:
				eqs = append(eqs, smt.Eq(sv.Post[nme].(*smt.Term), pv))
			case *sym.SymSliceV:
				ps := sv.Post[nme].(*sym.SymSliceV)
				eqs = append(eqs, smt.Eq(ps.Arr, pv.Arr), smt.Eq(ps.Len, pv.Len))
			}
		}
		cs = append(cs, smt.Implies(sel, smt.And(eqs...)))
	}
	sv.Formula = smt.And(cs...)
	return sv
}

func tokenKind(k string) int {
	switch k {
	case "Error":
		return 0
	case "Text":
		return 1
	case "StartTag":
		return 2
	case "EndTag":
		return 3
	case "SelfClosing":
		return 4
	case "Comment":
		return 5
	case "Doctype":
		return 6
	}
	return -1
}

// Unroll builds k consecutive steps from the initial state.
func (t *TRel) Unroll(k int, from map[string]sym.Value) []*StepVars {
	var out []*StepVars
	pre := from
	for j := 0; j < k; j++ {
		sv := t.Instance(j, pre)
		out = append(out, sv)
		pre = sv.Post
	}
	return out
}
