package checks

import (
	"fmt"
	"strings"

	"bmsym/smt"
	"bmsym/sym"

	"golang.org/x/tools/go/ssa"
)

// sanitizeSummary models (*Policy).sanitize(r, w) as an uninterpreted function
// of the reader's content: it either fails (nothing is said about what was
// written before) or writes San(content) to w and returns nil.
func sanitizeSummary(in *sym.Interp, st *sym.State, cc *ssa.CallCommon, args []sym.Value) []sym.Alt {
	r := args[1].(sym.IfaceV)
	w := args[2].(sym.IfaceV)
	rp, ok := r.V.(sym.Ptr)
	if !ok {
		panic("sanitize summary: reader is not a strings/bytes reader")
	}
	content := in.ReaderContent(st, rp)
	wp, ok := w.V.(sym.Ptr)
	if !ok {
		panic("sanitize summary: writer is not a *bytes.Buffer")
	}
	fails := smt.UF("San.fails", smt.Bool, content)
	out := smt.UF("San", smt.String, content)
	return []sym.Alt{
		{Cond: smt.Not(fails), Ret: sym.IfaceV{}, Eff: func(st *sym.State) { in.BufferAppend(st, wp, out) }},
		{Cond: fails, Ret: in.OpaqueError("sanitize"), Eff: func(st *sym.State) { in.BufferAppend(st, wp, smt.UF("San.partial", smt.String, content)) }},
	}
}

// C15: all entry points agree, independent of writer type.
func runC15(c *Ctx, ev *Evidence) ([]Violation, error) {
	timeout, grace := unitTimeouts(c)
	ev.Func("(*Policy).Sanitize", "(*Policy).SanitizeBytes", "(*Policy).SanitizeReader", "(*Policy).SanitizeReaderToWriter", "(*Policy).sanitizeWithBuff", "(*asStringWriter).WriteString", "(*Policy).sanitize [loop body, both writer kinds]")
	ev.Assume("A1c: the token stream does not depend on how the reader chunks the bytes (a property of the x/net/html tokenizer)",
		"in the wrapper run, sanitize(r, w) is an uninterpreted function of the reader's content (fails, or writes San(content) and returns nil)")
	ev.Outside("reader chunking (A1c); the bundled command-line tools (their policy construction is ordinary builder calls; not encoded)")
	var viols []Violation
	// (1) wrappers
	ur, err := c.exploreUnit(ev, "HarnessC15_entrypoints", sym.Config{Intercept: map[string]sym.Model{sanitizeFn: sanitizeSummary}})
	if err != nil {
		return nil, err
	}
	v1, reach, err := c.runUnitObligations(ev, ur, "C15", timeout, grace, func(r UnitResult) (*Violation, error) {
		input := r.UFVals["$input"].S
		req := NativeReq{"op": "entrypoints", "policy": []NativeReq{{"op": "base", "name": "UGC"}}, "input": input, "chunks": []int{1, 2, 1}}
		nres, nerr := RunNative(c.Repo, c.VerifDir, []NativeReq{req}, "")
		if nerr != nil {
			return nil, nerr
		}
		n := nres[0]
		a, _ := n["Sanitize"].(string)
		bad := ""
		for _, k := range []string{"SanitizeBytes", "SanitizeReader", "ToWriter", "PlainWriter"} {
			if s, _ := n[k].(string); s != a {
				bad = fmt.Sprintf("%s gives %q, Sanitize gives %q", k, s, a)
			}
		}
		if strings.TrimSpace(input) == "" && a != input {
			bad = fmt.Sprintf("blank input %q is not returned unchanged: %q", input, a)
		}
		if unchanged, _ := n["input_unchanged"].(bool); !unchanged {
			bad = "SanitizeBytes modified the caller's buffer"
		}
		ev.Sample(map[string]interface{}{"query": "C15 counterexample " + r.Ob.ID, "input": input, "native": n})
		if bad == "" {
			// the model may need an input the wrappers treat differently; try a few canonical ones
			// (blank, markup, and plain text with every character the tokenizer or the
			// serialiser rewrites: CR, NUL, &, quotes, >, entities, truncated markup)
			alts := []string{" ", "\n\t ", "<b>x</b>", " <p>y</p> ", "x", "a\rb", "a\r\nb", "\r", "a\x00b", "a&b", "a&amp;b", "it's", "\"q\"", "a>b", "&#x41;", "&lt;", "<!--x-->", "<p", "a\x0cb", "caf\xc3\xa9", "\xff"}
			var reqs []NativeReq
			for _, alt := range alts {
				reqs = append(reqs, NativeReq{"op": "entrypoints", "policy": []NativeReq{{"op": "base", "name": "UGC"}}, "input": alt, "chunks": []int{1, 2, 1}})
			}
			nr2, e2 := RunNative(c.Repo, c.VerifDir, reqs, "")
			if e2 != nil {
				return nil, e2
			}
			for i, alt := range alts {
				m := nr2[i]
				a2, _ := m["Sanitize"].(string)
				for _, k := range []string{"SanitizeBytes", "SanitizeReader", "ToWriter", "PlainWriter"} {
					if s, _ := m[k].(string); s != a2 {
						bad = fmt.Sprintf("input %q: %s gives %q, Sanitize gives %q", alt, k, s, a2)
						req = reqs[i]
					}
				}
				if strings.TrimSpace(alt) == "" && a2 != alt {
					bad = fmt.Sprintf("blank input %q is not returned unchanged: %q", alt, a2)
					req = reqs[i]
				}
				if bad != "" {
					break
				}
			}
		}
		if bad == "" {
			ev.Inconclusive(fmt.Sprintf("C15: %s has a counterexample (input %q) that did not reproduce natively", r.Ob.ID, input))
			return nil, nil
		}
		ev.AddReplayed(1)
		return &Violation{Sig: "site=entry-point-wrappers " + r.Ob.ID, Detail: bad, Replay: []NativeReq{req}}, nil
	})
	ur.In.Close()
	if err != nil {
		return nil, err
	}
	viols = append(viols, v1...)
	if reach["C15-blank"] == 0 || reach["C15-nonblank"] == 0 {
		ev.Inconclusive("vacuity: blank or non-blank branch of the entry-point harness unreachable")
	}
	// (2) writer kinds: from the same arbitrary state, the same token and the same
	// nondeterministic choices, the two loop relations produce the same
	// observable step (what is written, whether it returns, the next state)
	la, err := c.loopSetup(ev, "HarnessLoop_step", 1)
	if err != nil {
		return nil, err
	}
	defer la.In.Close()
	lb, err := c.loopSetup(ev, "HarnessLoop_stepPlainWriter", 1)
	if err != nil {
		return nil, err
	}
	defer lb.In.Close()
	pre := stateVars(la.T, "pre.")
	sa := la.T.Instance(0, pre)
	sb := lb.T.Instance(1, pre)
	tie := []*smt.Term{smt.Eq(sa.Data, sb.Data), smt.Eq(sa.Kind, sb.Kind), smt.Eq(sa.NAttr, sb.NAttr), smt.Eq(sa.Survive, sb.Survive)}
	for _, nm := range []string{"tok.k0", "tok.v0", "outKey", "outVal"} {
		tie = append(tie, smt.Eq(smt.Var("s0."+nm, smt.String), smt.Var("s1."+nm, smt.String)))
	}
	tie = append(tie, smt.Eq(smt.Var("s0.tok.errEOF", smt.Bool), smt.Var("s1.tok.errEOF", smt.Bool)))
	var differ []*smt.Term
	for _, pr := range [][2]*smt.Term{{sa.Written, sb.Written}, {sa.Space, sb.Space}, {sa.RawWrite, sb.RawWrite}, {sa.NWrites, sb.NWrites}, {sa.Returned, sb.Returned}, {sa.RetErr, sb.RetErr}, {sa.OutNAttr, sb.OutNAttr}, {sa.ErrOther, sb.ErrOther}} {
		differ = append(differ, smt.Not(smt.Eq(pr[0], pr[1])))
	}
	for _, nm := range la.T.Names {
		switch x := sa.Post[nm].(type) {
		case *smt.Term:
			differ = append(differ, smt.And(smt.Not(sa.Returned), smt.Not(smt.Eq(x, sb.Post[nm].(*smt.Term)))))
		case *sym.SymSliceV:
			y := sb.Post[nm].(*sym.SymSliceV)
			differ = append(differ, smt.And(smt.Not(sa.Returned), smt.Or(smt.Not(smt.Eq(x.Len, y.Len)), smt.Not(smt.Eq(x.Arr, y.Arr)))))
		}
	}
	as := append([]*smt.Term{sa.Formula, sb.Formula, smt.Not(sa.Failed), smt.Not(sb.Failed), la.PS.WellFormed()}, tie...)
	// an error token's kind of error is a per-path constant: tie it through ErrOther
	as = append(as, smt.Eq(sa.ErrOther, sb.ErrOther))
	as = append(as, smt.Or(differ...))
	r := la.solve("C15-writer-kinds", as, []*smt.Term{sa.Kind, sa.Data}, timeout*2)
	ev.Query("C15-writer-kinds", r)
	ev.AddTransitions(len(la.T.Paths) + len(lb.T.Paths))
	ev.Sample(map[string]interface{}{"query": "C15-writer-kinds: same state, token and choices; the step observed through a WriteString destination differs from the step observed through a plain io.Writer", "verdict": r.Status.String(), "solver": r.Solver, "seconds": r.Seconds})
	switch r.Status {
	case smt.Unknown:
		ev.Inconclusive("C15 writer-kind query undecided: " + r.Note)
	case smt.Sat:
		// the symbolic difference is confirmed on probe documents: a mixed small
		// one and size-parameterised ones (single tokens and token counts around
		// typical buffer sizes), each through both writer kinds
		pol := []NativeReq{{"op": "base", "name": "UGC"}, {"op": "flag", "name": "AllowComments", "val": true}, {"op": "flag", "name": "AddSpaceWhenStrippingTag", "val": true}}
		inputs := []string{`<p>a<b>b</b><x>c</x><!--d--><img src="/i" alt="e"></p><script>f</script><a>g</a>`}
		for _, n := range []int{255, 256, 511, 512, 1023, 1024, 4095, 4096, 4097, 8192, 65536, 70000} {
			inputs = append(inputs, "<p>"+strings.Repeat("x", n)+"</p>", "<p><!--"+strings.Repeat("c", n)+"--><b title=\""+strings.Repeat("t", n)+"\">y</b></p>", strings.Repeat("<b>y</b>", n/8+1)+"<i>z</i>")
		}
		var reqs []NativeReq
		for _, inp := range inputs {
			reqs = append(reqs, NativeReq{"op": "entrypoints", "policy": pol, "input": inp, "chunks": []int{3, 1}})
		}
		nres, nerr := RunNative(c.Repo, c.VerifDir, reqs, "")
		if nerr != nil {
			return nil, nerr
		}
		confirmed := false
		for i := range reqs {
			s1, _ := nres[i]["ToWriter"].(string)
			s2, _ := nres[i]["PlainWriter"].(string)
			if s1 != s2 {
				ev.AddReplayed(1)
				confirmed = true
				viols = append(viols, Violation{Sig: "site=writer-kind", Detail: fmt.Sprintf("for an input of %d bytes (%.40q...) a destination without WriteString receives %.60q..., one with WriteString %.60q...", len(inputs[i]), inputs[i], s2, s1), Replay: []NativeReq{reqs[i]}})
				break
			}
		}
		if !confirmed {
			ev.Inconclusive(fmt.Sprintf("C15: the loop body differs between the two writer kinds symbolically (token kind %d) but the native comparison agrees on %d probe documents", r.Values[0].I, len(reqs)))
		}
	}
	return viols, nil
}

func stripFresh(s string) string {
	// fresh variables are named prefix!N; drop the counter
	var sb strings.Builder
	for i := 0; i < len(s); i++ {
		if s[i] == '!' {
			j := i + 1
			for j < len(s) && s[j] >= '0' && s[j] <= '9' {
				j++
			}
			sb.WriteByte('!')
			i = j - 1
			continue
		}
		sb.WriteByte(s[i])
	}
	return sb.String()
}
