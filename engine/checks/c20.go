package checks

import (
	"fmt"
	"sync"

	"bmsym/smt"
	"bmsym/sym"
)

// C20: re-sanitising sanitised output is a no-op.
func runC20(c *Ctx, ev *Evidence) ([]Violation, error) {
	timeout, grace := unitTimeouts(c)
	maxAttrs := 2
	ev.Func("(*Policy).sanitizeAttrs applied twice", "(*Policy).validURL", "hasRelToken / link hardening", "crossorigin and sandbox passes", "UGCPolicy")
	ev.Bound("attributes_per_tag", maxAttrs)
	ev.Bound("policies", "statement's class: rules without value pattern for href/src/cite/rel/target/crossorigin/sandbox/other, one symbolic unconditional URL scheme, relative URLs on/off, ten combinations of the link / crossorigin / sandbox options (sandbox allowlist symbolic), no rewriter; and the real UGCPolicy on one free attribute of every vocabulary element except del/ins")
	ev.Assume("A3: Parse(u.String()) succeeds with the same scheme and host, u.String() is a fixed point and contains no white space",
		"document level: a token written in the first pass is an allowed tag with surviving attributes or escaped text; by C01/C06 and the tokenizer/serialiser round trip (A1) it is read back as the same token, so idempotence of the attribute filter lifts to documents",
		"UGC: attribute values without embedded white space")
	var viols []Violation
	sym.SchemeAxiom = false
	defer func() { sym.SchemeAxiom = true }()
	cfg := sym.Config{Params: map[string]int{"maxAttrs": maxAttrs}, SplitMax: 2}
	// reuse the rel-token summary when its lemma holds
	const helper = "github.com/microcosm-cc/bluemonday.hasRelToken"
	{
		lin, err := c.NewInterp(sym.Config{SplitMax: 4, NoFeasCheck: true})
		if err != nil {
			return nil, err
		}
		ok := lin.FindFunc(helper) != nil
		if ok {
			for _, t := range []string{"nofollow", "noreferrer", "noopener"} {
				v := smt.Var("lemma.v", smt.String)
				good, _, err := c.proveSummary(ev, lin, helper, []sym.Value{v, smt.StrC(t)}, sym.HasToken(v, t), timeout, "C20-lemma-hasRelToken-"+t)
				if err != nil || !good {
					ok = false
					break
				}
			}
		}
		lin.Close()
		if ok {
			cfg.Summaries = map[string]func(in *sym.Interp, st *sym.State, args []sym.Value) sym.Value{helper: func(in *sym.Interp, st *sym.State, args []sym.Value) sym.Value {
				return sym.HasToken(args[0].(*smt.Term), args[1].(*smt.Term).S)
			}}
		}
	}
	for _, h := range []string{"HarnessC20_validURL", "HarnessC20_attrs", "HarnessC20_sandbox", "HarnessC20_ugc"} {
		hc := cfg
		if h == "HarnessC20_attrs" || h == "HarnessC20_ugc" {
			hc.Stubs = map[string]string{validURLFn: "summaryValidURL"}
		}
		ur, err := c.exploreUnit(ev, h, hc)
		if err != nil {
			return nil, err
		}
		seen := map[string]bool{}
		budget := newReplayBudget()
		v, reach, err := c.runUnitObligations(ev, ur, "C20", timeout, grace, func(r UnitResult) (*Violation, error) {
			el := r.Notes["el"].S
			sig := "site=sanitizeAttrs-twice " + r.Ob.ID
			if h == "HarnessC20_validURL" {
				return replayC20URL(c, ev, ur, r)
			}
			if seen[sig] || !budget.allow(sig) {
				return nil, nil
			}
			// ground refinement over candidate values for every input value: the facts
			// net/url yields for them and, for the validURL summary symbols, what the
			// real validURL returns for them under the replay policy
			nt := noteTerms(r.Ob)
			cands := []string{"http://a/b", "/p", " http://a/b ", " //a/b", "nofollow", "_blank", "anonymous", "allow-forms allow-forms", "x", "noopener nofollow", "NOFOLLOW"}
			vfacts, verr := c20ValidURLFacts(c, cands)
			if verr != nil {
				return nil, verr
			}
			n := int(r.Notes["in.n"].I)
			if n == 0 {
				n = 1
			}
			idx := make([]int, n)
			found, replays := false, 0
			for {
				facts := append([]*smt.Term{}, vfacts...)
				for i := 0; i < n; i++ {
					facts = append(facts, urlCandidateFacts(nt[fmt.Sprintf("in.v%d", i)], cands[idx[i]])...)
				}
				r2 := solveOb(ur.In, r.Ob, facts, timeout, grace, "C20-ground")
				if r2.Res.Status == smt.Sat {
					found = true
					replays++
					v, reproduced, err := c20Replay(c, ev, h, r2, sig)
					if err != nil {
						return nil, err
					}
					if reproduced {
						seen[sig] = true
						return v, nil
					}
					if replays >= 6 {
						break
					}
				}
				k := 0
				for k < n {
					idx[k]++
					if idx[k] < len(cands) {
						break
					}
					idx[k] = 0
					k++
				}
				if k == n {
					break
				}
			}
			if !found {
				ev.Inconclusive(fmt.Sprintf("C20: counterexample (%s, <%s>) has no concrete candidate values", r.Ob.ID, el))
			} else {
				ev.Inconclusive(fmt.Sprintf("C20: counterexample (%s, <%s>): %d concrete instance(s) did not reproduce natively", r.Ob.ID, el, replays))
			}
			return nil, nil
		})
		ur.In.Close()
		if err != nil {
			return nil, err
		}
		viols = append(viols, v...)
		budget.report(ev, "C20")
		if reach["C20-reach"]+reach["C20-ugc-reach"]+reach["C20-validURL-accepts"] == 0 {
			ev.Inconclusive("vacuity: " + h + " unreachable")
		}
	}
	return viols, nil
}

// c20Replay runs the attribute filter twice natively on a concrete model.
func c20Replay(c *Ctx, ev *Evidence, h string, r2 UnitResult, sig string) (*Violation, bool, error) {
	el := r2.Notes["el"].S
	in := attrsFromNotes(r2.Notes, "in")
	var pol []NativeReq
	if h == "HarnessC20_ugc" {
		pol = []NativeReq{{"op": "base", "name": "UGC"}}
	} else if h == "HarnessC20_sandbox" {
		pol = []NativeReq{{"op": "base", "name": "Zero"}, {"op": "AllowAttrs", "attrs": []string{"sandbox", "other"}, "scope": "globally"}, {"op": "RequireSandboxOnIFrame", "vals": []int{2, 10}}}
		el = "iframe"
	} else {
		opts := int(r2.Notes["opts"].I)
		flag := func(nm string, v bool) NativeReq { return NativeReq{"op": "flag", "name": nm, "val": v} }
		pol = []NativeReq{{"op": "base", "name": "Zero"},
			flag("RequireNoFollowOnLinks", opts&1 != 0), flag("RequireNoFollowOnFullyQualifiedLinks", opts&2 != 0),
			flag("RequireNoReferrerOnLinks", opts&4 != 0), flag("RequireNoReferrerOnFullyQualifiedLinks", opts&8 != 0),
			flag("AddTargetBlankToFullyQualifiedLinks", opts&16 != 0), flag("RequireCrossOriginAnonymous", opts&32 != 0),
			flag("AllowRelativeURLs", true), {"op": "AllowURLSchemes", "schemes": []string{"http"}},
			{"op": "AllowAttrs", "attrs": []string{"href", "src", "cite", "rel", "target", "crossorigin", "sandbox", "other"}, "scope": "globally"}}
		if opts&64 != 0 {
			pol = append(pol, NativeReq{"op": "RequireSandboxOnIFrame", "vals": []int{2, 10}})
		}
	}
	req1 := NativeReq{"op": "sanitizeAttrs", "policy": pol, "element": el, "attrs": attrsToJSON(in)}
	n1, nerr := RunNative(c.Repo, c.VerifDir, []NativeReq{req1}, "")
	if nerr != nil {
		return nil, false, nerr
	}
	o1 := decodeAttrs(n1[0]["attrs"])
	req2 := NativeReq{"op": "sanitizeAttrs", "policy": pol, "element": el, "attrs": attrsToJSON(o1)}
	n2, nerr := RunNative(c.Repo, c.VerifDir, []NativeReq{req2}, "")
	if nerr != nil {
		return nil, false, nerr
	}
	o2 := decodeAttrs(n2[0]["attrs"])
	ev.Sample(map[string]interface{}{"query": "C20 counterexample", "element": el, "in": in, "pass1": o1, "pass2": o2})
	if attrsEqual(o1, o2) {
		c.Log("C20: model (<%s> in=%q) did not reproduce natively: pass1=%q pass2=%q", el, in, o1, o2)
		return nil, false, nil
	}
	ev.AddReplayed(1)
	return &Violation{Sig: sig, Detail: fmt.Sprintf("<%s> in=%q: first pass %q, second pass %q", el, in, o1, o2), Replay: []NativeReq{req1, req2}}, true, nil
}

var c20Facts struct {
	sync.Mutex
	facts []*smt.Term
	done  bool
}

// c20ValidURLFacts: vurl.ok / vurl.out of every candidate (and of its result)
// as the real validURL computes them under the replay policy (http allowed,
// relative URLs allowed).
func c20ValidURLFacts(c *Ctx, cands []string) ([]*smt.Term, error) {
	c20Facts.Lock()
	defer c20Facts.Unlock()
	if c20Facts.done {
		return c20Facts.facts, nil
	}
	pol := []NativeReq{{"op": "base", "name": "Zero"}, {"op": "flag", "name": "AllowRelativeURLs", "val": true}, {"op": "AllowURLSchemes", "schemes": []string{"http"}}}
	todo := append([]string{}, cands...)
	seen := map[string]bool{}
	var fs []*smt.Term
	for round := 0; round < 2 && len(todo) > 0; round++ {
		var reqs []NativeReq
		var keys []string
		for _, k := range todo {
			if !seen[k] {
				seen[k] = true
				keys = append(keys, k)
				reqs = append(reqs, NativeReq{"op": "validURL", "policy": pol, "raw": k})
			}
		}
		todo = nil
		if len(reqs) == 0 {
			break
		}
		res, err := RunNative(c.Repo, c.VerifDir, reqs, "")
		if err != nil {
			return nil, err
		}
		for i, k := range keys {
			ok, _ := res[i]["ok"].(bool)
			out, _ := res[i]["out"].(string)
			fs = append(fs, smt.Eq(smt.UF("vurl.ok", smt.Bool, smt.StrC(k)), smt.BoolC(ok)))
			if ok {
				fs = append(fs, smt.Eq(smt.UF("vurl.out", smt.String, smt.StrC(k)), smt.StrC(out)))
				fs = append(fs, groundURLFacts(out, 1)...)
				todo = append(todo, out)
			}
		}
	}
	c20Facts.facts, c20Facts.done = fs, true
	return fs, nil
}

// replayC20URL makes a validURL counterexample concrete with candidate URLs
// and runs validURL twice natively.
func replayC20URL(c *Ctx, ev *Evidence, ur *UnitRun, r UnitResult) (*Violation, error) {
	pol := []NativeReq{{"op": "base", "name": "Zero"}, {"op": "flag", "name": "AllowRelativeURLs", "val": true}, {"op": "AllowURLSchemes", "schemes": []string{"http", "https", "mailto"}}}
	for _, cand := range urlCandidates {
		req1 := NativeReq{"op": "validURL", "policy": pol, "raw": cand}
		n1, err := RunNative(c.Repo, c.VerifDir, []NativeReq{req1}, "")
		if err != nil {
			return nil, err
		}
		if ok, _ := n1[0]["ok"].(bool); !ok {
			continue
		}
		u, _ := n1[0]["out"].(string)
		req2 := NativeReq{"op": "validURL", "policy": pol, "raw": u}
		n2, err := RunNative(c.Repo, c.VerifDir, []NativeReq{req2}, "")
		if err != nil {
			return nil, err
		}
		ok2, _ := n2[0]["ok"].(bool)
		u2, _ := n2[0]["out"].(string)
		if !ok2 || u2 != u {
			ev.AddReplayed(1)
			return &Violation{Sig: "site=validURL-twice " + r.Ob.ID, Detail: fmt.Sprintf("validURL(%q) = %q, validURL(%q) = (%q, %v)", cand, u, u, u2, ok2), Replay: []NativeReq{req1, req2}}, nil
		}
	}
	ev.Inconclusive("C20: validURL is not stable symbolically (" + r.Ob.ID + ") but every candidate URL is stable natively")
	return nil, nil
}
