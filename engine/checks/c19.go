package checks

import (
	"fmt"
	"regexp"
	"sync"
	"time"

	"bmsym/smt"
	"bmsym/sym"
)

// C19: exported attribute matchers are anchored, closed-alphabet recognisers.
//
// The patterns are read from the heap left by symbolically executing the
// package initialiser (regexp.MustCompile(<const>) stored into the exported
// variables), translated to regular languages with search semantics, and
// compared by the string solver against a hand-written reference language
// and alphabet of the documented form. All ASCII strings, no length bound.

type matcherSpec struct {
	Name     string
	Ref      string // Go syntax, written from the documentation, anchored
	Alphabet string // character class body
	Examples []string
}

var c19Specs = []matcherSpec{
	{"CellAlign", `^(?i:center|justify|left|right|char)$`, `a-zA-Z`, []string{"center", "justify", "left", "right", "char", "LEFT"}},
	{"CellVerticalAlign", `^(?i:baseline|bottom|middle|top)$`, `a-zA-Z`, []string{"baseline", "bottom", "middle", "top", "Top"}},
	{"Direction", `^(?i:rtl|ltr)$`, `a-zA-Z`, []string{"rtl", "ltr", "RTL"}},
	{"ImageAlign", `^(?i:left|right|top|texttop|middle|absmiddle|baseline|bottom|absbottom)$`, `a-zA-Z`, []string{"left", "right", "top", "texttop", "middle", "absmiddle", "baseline", "bottom", "absbottom"}},
	{"Integer", `^[0-9]+$`, `0-9`, []string{"0", "1", "42", "007"}},
	{"ISO8601", `^[0-9]{4}(-[0-9]{2}(-[0-9]{2}([ T][0-9]{2}:[0-9]{2}(:[0-9]{2})?(\.[0-9]{1,6})?Z?([+-][0-9]{2}:[0-9]{2})?)?)?)?$`, `0-9T Z:.+\-`,
		[]string{"1997", "1997-07", "1997-07-16", "1997-07-16T19:20+01:00", "1997-07-16T19:20:30+01:00", "1997-07-16T19:20:30.45+01:00", "1997-07-16T19:20:30Z"}},
	{"ListType", `^(?i:circle|disc|square|a|i|1)$`, `a-zA-Z1`, []string{"circle", "disc", "square", "a", "A", "i", "I", "1"}},
	{"SpaceSeparatedTokens", `^[\sa-zA-Z0-9_-]+$`, `\sa-zA-Z0-9_\-`, []string{"nofollow", "a b", "foo-bar baz_1"}},
	{"Number", `^[-+]?[0-9]*\.?[0-9]+([eE][-+]?[0-9]+)?$`, `0-9+\-.eE`, []string{"1", "-1.5", "+.5", "1e10", "1.5E-3"}},
	{"NumberOrPercent", `^[0-9]+%?$`, `0-9%`, []string{"100", "50%", "0"}},
	{"Paragraph", `^[a-zA-Z0-9\s\-_',\[\]!\./\\\(\)]*$`, `a-zA-Z0-9\s\-_',\[\]!./\\()`, []string{"", "Hello, world!", "a (b) [c] d/e\\f_g-h.'"}},
}

func globalRegex(in *sym.Interp, pkg, name string) (*sym.RegexObj, error) {
	v, err := in.GlobalValue(pkg, name)
	if err != nil {
		return nil, err
	}
	p, ok := v.(sym.Ptr)
	if !ok || p.Obj == 0 {
		return nil, fmt.Errorf("%s.%s is not an initialised *regexp.Regexp", pkg, name)
	}
	r, ok := in.BaseHeap[p.Obj].(*sym.RegexObj)
	if !ok || r.Known == nil {
		return nil, fmt.Errorf("%s.%s is not a compiled constant pattern", pkg, name)
	}
	return r, nil
}

type c19Cand struct {
	spec  matcherSpec
	kind  string
	s     string
	query string
}

func runC19(c *Ctx, ev *Evidence) (viol []Violation, err error) {
	in, err := c.NewInterp(sym.Config{})
	if err != nil {
		return nil, err
	}
	defer in.Close()
	ev.Func("github.com/microcosm-cc/bluemonday.init (regexp.MustCompile arguments of the exported matchers)")
	ev.Bound("strings", "all strings over 7-bit ASCII, no length bound")
	ev.Assume("A4: regexp/syntax parse tree means what the RegLan translation says (validated per pattern against the real MatchString on solver-chosen members and non-members)",
		"inputs are 7-bit ASCII; \\p{L}/\\p{N}/\\s are compared on their ASCII restriction")
	ev.Outside("non-ASCII input (Unicode letters/digits are accepted by \\p{L}\\p{N} by design; Unicode case folding such as U+212A for k)")
	timeout, grace := 20*time.Second, 3*time.Second
	if c.Tier == "thorough" {
		timeout, grace = 120*time.Second, 60*time.Second
	}
	x := smt.Var("s", smt.String)
	var mu sync.Mutex
	var cands []c19Cand
	var wg sync.WaitGroup
	var nativeReqs []NativeReq
	type valItem struct {
		name string
		s    string
		want bool
	}
	var valItems []valItem
	for _, spec := range c19Specs {
		r, e := globalRegex(in, "github.com/microcosm-cc/bluemonday", spec.Name)
		if e != nil {
			return nil, e
		}
		if r.Known.Unsupported != "" {
			ev.Inconclusive(fmt.Sprintf("%s: pattern %q not translatable: %s", spec.Name, r.Known.Src, r.Known.Unsupported))
			continue
		}
		ev.AddStates(1)
		spec := spec
		m := r.Known.Match(x)
		ref := smt.Translate(spec.Ref)
		alpha := smt.Translate(`^[` + spec.Alphabet + `]*$`)
		if ref.Unsupported != "" || alpha.Unsupported != "" {
			return nil, fmt.Errorf("reference for %s not translatable", spec.Name)
		}
		run := func(kind string, asserts []*smt.Term, expectSat bool, onSat func(s string)) {
			wg.Add(1)
			go func() {
				defer wg.Done()
				q := &smt.Query{Name: "C19-" + spec.Name + "-" + kind, Asserts: append(asserts, smt.ASCII(x)), Values: []*smt.Term{x}, Timeout: timeout, Both: true, Grace: grace}
				var res smt.Result
				in.WithWorker(func(w *smt.Worker) { res = w.Check(q) })
				ev.Query(q.Name, res)
				ev.AddTransitions(1)
				ev.Sample(map[string]interface{}{"query": q.Name, "pattern": r.Known.Src, "verdict": res.Status.String(), "solver": res.Solver, "seconds": res.Seconds, "model": modelStr(res)})
				switch res.Status {
				case smt.Unknown:
					ev.Inconclusive(q.Name + ": " + res.Note)
				case smt.Sat:
					if onSat != nil {
						onSat(res.Values[0].S)
					}
				}
			}()
		}
		run("alphabet", []*smt.Term{m, smt.Not(alpha.Match(x))}, false, func(s string) {
			mu.Lock()
			cands = append(cands, c19Cand{spec, "alphabet", s, "accepts a string with a character outside the documented alphabet"})
			mu.Unlock()
		})
		run("form", []*smt.Term{m, smt.Not(ref.Match(x))}, false, func(s string) {
			mu.Lock()
			cands = append(cands, c19Cand{spec, "form", s, "accepts a string that is not of the documented form"})
			mu.Unlock()
		})
		for i, e := range spec.Examples {
			e := e
			run(fmt.Sprintf("example%d", i), []*smt.Term{smt.Eq(x, smt.StrC(e)), smt.App("not", smt.Bool, matchNoFold(r.Known, x))}, false, func(s string) {
				mu.Lock()
				cands = append(cands, c19Cand{spec, "example", e, "rejects a documented example"})
				mu.Unlock()
			})
		}
		// translation validation: members and non-members chosen by the solver
		for _, member := range []bool{true, false} {
			member := member
			wg.Add(1)
			go func() {
				defer wg.Done()
				var block []*smt.Term
				for k := 0; k < 4; k++ {
					cond := m
					if !member {
						cond = smt.Not(m)
					}
					as := append([]*smt.Term{cond, smt.ASCII(x), smt.Le(smt.StrLen(x), smt.IntC(12))}, block...)
					q := &smt.Query{Name: fmt.Sprintf("C19-%s-validate-%v-%d", spec.Name, member, k), Asserts: as, Values: []*smt.Term{x}, Timeout: 10 * time.Second}
					var res smt.Result
					in.WithWorker(func(w *smt.Worker) { res = w.Check(q) })
					if res.Status != smt.Sat {
						return
					}
					s := res.Values[0].S
					mu.Lock()
					valItems = append(valItems, valItem{spec.Name, s, member})
					mu.Unlock()
					block = append(block, smt.Not(smt.Eq(x, smt.StrC(s))))
				}
			}()
		}
	}
	wg.Wait()
	// native phase: validation items + candidates
	for _, v := range valItems {
		nativeReqs = append(nativeReqs, NativeReq{"op": "regexvar", "name": v.name, "s": v.s})
	}
	for _, cd := range cands {
		nativeReqs = append(nativeReqs, NativeReq{"op": "regexvar", "name": cd.spec.Name, "s": cd.s})
	}
	if len(nativeReqs) == 0 {
		return nil, nil
	}
	res, err := RunNative(c.Repo, c.VerifDir, nativeReqs, "")
	if err != nil {
		return nil, err
	}
	for i, v := range valItems {
		got, _ := res[i]["match"].(bool)
		if got != v.want {
			ev.Inconclusive(fmt.Sprintf("translation of %s disagrees with real MatchString on %q (encoding says %v)", v.name, v.s, v.want))
		} else {
			ev.AddReplayed(1)
		}
	}
	for j, cd := range cands {
		r := res[len(valItems)+j]
		got, _ := r["match"].(bool)
		refRe := regexp.MustCompile(cd.spec.Ref)
		alphaRe := regexp.MustCompile(`^[` + cd.spec.Alphabet + `]*$`)
		confirmed := false
		switch cd.kind {
		case "alphabet":
			confirmed = got && !alphaRe.MatchString(cd.s)
		case "form":
			confirmed = got && !refRe.MatchString(cd.s)
		case "example":
			confirmed = !got
		}
		if !confirmed {
			ev.Inconclusive(fmt.Sprintf("%s/%s: solver model %q did not reproduce natively", cd.spec.Name, cd.kind, cd.s))
			continue
		}
		ev.AddReplayed(1)
		viol = append(viol, Violation{
			Sig:    fmt.Sprintf("matcher=%s kind=%s", cd.spec.Name, cd.kind),
			Detail: fmt.Sprintf("%s %s: %q", cd.spec.Name, cd.query, cd.s),
			Replay: []NativeReq{{"op": "regexvar", "name": cd.spec.Name, "s": cd.s}},
		})
	}
	return viol, nil
}

// matchNoFold builds the membership formula without constant folding through
// the real matcher, so that documented examples are decided by the solver on
// the translated language.
func matchNoFold(k *smt.Known, s *smt.Term) *smt.Term {
	return k.Match(s)
}

func modelStr(r smt.Result) string {
	if r.Status != smt.Sat || len(r.Values) == 0 {
		return ""
	}
	return fmt.Sprintf("%q", r.Values[0].S)
}
