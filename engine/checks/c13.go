package checks

import (
	"fmt"
	"strings"

	"bmsym/smt"
	"bmsym/sym"
)

// effectsCorpus is the native replay for a shared-state write: a policy that
// exercises every table and a few inputs; the policy must look the same
// before and after, and later results must not depend on earlier calls.
var c13ReplayPolicy = []NativeReq{
	{"op": "base", "name": "UGC"},
	{"op": "AllowAttrs", "attrs": []string{"one"}, "scope": "matching", "elre": "^x-"},
	{"op": "AllowAttrs", "attrs": []string{"two"}, "scope": "matching", "elre": "-box$"},
	{"op": "AllowStyles", "props": []string{"color"}, "kind": "enum", "enum": []string{"red"}, "scope": "matching", "elre": "^x-"},
	{"op": "AllowStyles", "props": []string{"width"}, "kind": "enum", "enum": []string{"1px"}, "scope": "matching", "elre": "-box$"},
	{"op": "AllowAttrs", "attrs": []string{"style"}, "scope": "globally"},
	{"op": "flag", "name": "AllowDataAttributes", "val": true},
	// rule lists that grew by three separate calls have spare capacity (len 3, cap 4)
	{"op": "AllowAttrs", "attrs": []string{"cls"}, "matching": "^g1$", "scope": "globally"},
	{"op": "AllowAttrs", "attrs": []string{"cls"}, "matching": "^g2$", "scope": "globally"},
	{"op": "AllowAttrs", "attrs": []string{"cls"}, "matching": "^g3$", "scope": "globally"},
	{"op": "AllowAttrs", "attrs": []string{"cls"}, "matching": "^e1$", "elements": []string{"code"}},
	{"op": "AllowAttrs", "attrs": []string{"cls"}, "matching": "^e2$", "elements": []string{"code"}},
	{"op": "AllowAttrs", "attrs": []string{"cls"}, "matching": "^e3$", "elements": []string{"code"}},
	{"op": "AllowAttrs", "attrs": []string{"cls"}, "matching": "^s1$", "elements": []string{"span"}},
}

var c13Inputs = []string{
	`<x-box one="1" two="2" style="color: red; width: 1px">a</x-box>`,
	`<x-one one="1" two="2" style="color: red; width: 1px">b</x-one><y-box one="1" two="2" style="color: red; width: 1px">c</y-box>`,
	`<a href="http://h/p" rel="x" target="t">l</a><img src="/i" alt="a"><iframe sandbox="allow-forms"></iframe>`,
	`<code cls="e2">c</code><span cls="s1">s</span><code cls="g3">d</code><span cls="e1">t</span>`,
}

// C13: a finished policy is deterministic and safe to share.
func runC13(c *Ctx, ev *Evidence) ([]Violation, error) {
	timeout, grace := unitTimeouts(c)
	ev.Bound("reduction", "data-race freedom and determinism are reduced to (1) no path of sanitize / sanitizeAttrs / sanitizeStyles / validURL / matchRegex writes to an object that existed before the call (policy tables, rule slices incl. spare capacity, package globals), (2) results are the same under every iteration order of the policy maps that are ranged over; goroutine schedules themselves are not explored")
	ev.Assume("A4: regexp.MatchString and user callbacks are reentrant and pure", "slice growth: append reallocates when capacity is exhausted, doubling otherwise (model of the runtime's growth policy)")
	ev.Outside("actual interleavings (the race detector's domain); effects inside x/net/html, net/url, regexp, douceur")
	var viols []Violation
	type hcfg struct {
		name string
		cfg  sym.Config
	}
	runs := []hcfg{
		{"HarnessAttrs_generic", sym.Config{Params: map[string]int{"maxAttrs": 2, "tableEntries": 1}}},
		{"HarnessAttrs_matchRegex", sym.Config{MapOrders: true}},
		{"HarnessC11_links", sym.Config{Stubs: map[string]string{validURLFn: "stubValidURL"}, Params: map[string]int{"maxAttrs": 2, "allOptions": 0}, SplitMax: 2}},
		{"HarnessC12_forced", sym.Config{Params: map[string]int{"maxAttrs": 2}, SplitMax: 2}},
		{"HarnessC03_urls", sym.Config{Params: map[string]int{"schemeEntries": 1, "maxAttrs": 1, "onlyPos": 1}}},
		{"HarnessC10_styles", sym.Config{Params: map[string]int{"maxDecls": 2, "shapeLo": 3}, Stubs: map[string]string{parseDeclsFn: "stubParseDeclarations", removeUnicodeFn: "stubRemoveUnicode"}}},
		{"HarnessC13_spareCapacity", sym.Config{}},
		{"HarnessC13_styleOrder", sym.Config{MapOrders: true, Params: map[string]int{"maxDecls": 1}, Stubs: map[string]string{parseDeclsFn: "stubParseDeclarations", removeUnicodeFn: "stubRemoveUnicode"}}},
	}
	replayed := false
	for _, h := range runs {
		ur, err := c.exploreUnit(ev, h.name, h.cfg)
		if err != nil {
			return nil, err
		}
		ev.Func(h.name + " (real callees entered)")
		seen := map[string]bool{}
		v1, _, err := c.runUnitObligations(ev, ur, "C13", timeout, grace, func(r UnitResult) (*Violation, error) {
			effs, _ := r.Ob.Ghost["effects"].([]string)
			what := r.Ob.ID
			if len(effs) > 0 {
				what = effs[0]
			}
			// site without object ids
			site := what
			if i := strings.Index(site, " at "); i >= 0 {
				site = site[i+4:]
			}
			if j := strings.Index(site, ":"); j >= 0 && strings.Contains(site, "@") {
				site = site[:strings.Index(site, "@")]
			}
			sig := "site=" + site + " " + r.Ob.ID
			if seen[sig] {
				return nil, nil
			}
			seen[sig] = true
			if replayed {
				return nil, nil
			}
			replayed = true
			req := NativeReq{"op": "effects", "policy": c13ReplayPolicy, "inputs": c13Inputs}
			nres, nerr := RunNative(c.Repo, c.VerifDir, []NativeReq{req}, "")
			if nerr != nil {
				return nil, nerr
			}
			changed, _ := nres[0]["policy_changed"].(bool)
			differ, _ := nres[0]["results_differ"].(bool)
			ev.Sample(map[string]interface{}{"query": "C13 effect", "harness": h.name, "effect": what, "native": nres[0]})
			if changed || differ {
				ev.AddReplayed(1)
				return &Violation{Sig: sig, Detail: fmt.Sprintf("%s: %s; natively: policy changed=%v, results depend on earlier calls or differ between sequential and concurrent runs=%v (%v)", h.name, what, changed, differ, nres[0]["detail"]), Replay: []NativeReq{req}}, nil
			}
			ev.Inconclusive(fmt.Sprintf("C13: %s on a path of %s, but the native before/after comparison saw no change", what, h.name))
			return nil, nil
		})
		ur.In.Close()
		if err != nil {
			return nil, err
		}
		viols = append(viols, v1...)
	}
	// the token loop
	lr, err := c.loopSetup(ev, "HarnessLoop_step", 1)
	if err != nil {
		return nil, err
	}
	defer lr.In.Close()
	for _, p := range lr.T.Paths {
		if len(p.Effects) == 0 {
			continue
		}
		r := lr.solve(fmt.Sprintf("C13-loop-effect-p%d", p.ID), []*smt.Term{p.PC}, nil, timeout)
		ev.Query(fmt.Sprintf("C13-loop-effect-p%d", p.ID), r)
		if r.Status == smt.Sat {
			req := NativeReq{"op": "effects", "policy": c13ReplayPolicy, "inputs": c13Inputs}
			nres, nerr := RunNative(c.Repo, c.VerifDir, []NativeReq{req}, "")
			if nerr != nil {
				return nil, nerr
			}
			changed, _ := nres[0]["policy_changed"].(bool)
			differ, _ := nres[0]["results_differ"].(bool)
			if changed || differ {
				ev.AddReplayed(1)
				viols = append(viols, Violation{Sig: "site=sanitize-loop shared write", Detail: fmt.Sprintf("token loop: %s; natively: policy changed=%v results differ=%v", p.Effects[0], changed, differ), Replay: []NativeReq{req}})
			} else {
				ev.Inconclusive("C13: the token loop writes to shared state (" + p.Effects[0] + ") but the native comparison saw no change")
			}
			break
		}
	}
	ev.Sample(map[string]interface{}{"query": "C13: token loop paths without shared writes", "paths": len(lr.T.Paths)})
	return viols, nil
}
