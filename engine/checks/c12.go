package checks

import (
	"fmt"
	"sort"
	"strings"

	"bmsym/smt"
	"bmsym/sym"
)

var sandboxTokens = []string{
	"allow-downloads", "allow-downloads-without-user-activation", "allow-forms", "allow-modals",
	"allow-orientation-lock", "allow-pointer-lock", "allow-popups", "allow-popups-to-escape-sandbox",
	"allow-presentation", "allow-same-origin", "allow-scripts", "allow-storage-access-by-user-activation",
	"allow-top-navigation", "allow-top-navigation-by-user-activation",
}

func c12Oracle(el string, mode int, allowed map[string]bool, out [][2]string) string {
	if len(out) == 0 {
		return ""
	}
	if mode != 1 {
		switch el {
		case "audio", "img", "link", "script", "video":
			found := false
			for _, a := range out {
				if a[0] == "crossorigin" {
					found = true
					if a[1] != "anonymous" {
						return fmt.Sprintf("crossorigin=%q", a[1])
					}
				}
			}
			if !found {
				return "no crossorigin attribute"
			}
		}
	}
	if mode != 0 && el == "iframe" {
		found := false
		for _, a := range out {
			if a[0] == "sandbox" {
				found = true
				seen := map[string]bool{}
				for _, t := range strings.Fields(a[1]) {
					if !allowed[t] {
						return fmt.Sprintf("sandbox token %q is not one the policy listed", t)
					}
					if seen[t] {
						return fmt.Sprintf("sandbox token %q is duplicated", t)
					}
					seen[t] = true
				}
			}
		}
		if !found {
			return "no sandbox attribute"
		}
	}
	return ""
}

// C12: forced attributes.
func runC12(c *Ctx, ev *Evidence) ([]Violation, error) {
	timeout, grace := unitTimeouts(c)
	maxAttrs, K := 2, 3
	if c.Tier == "thorough" {
		maxAttrs, K = 2, 4 // three attributes with the entry-by-entry tables need more than 60 GB
	}
	ev.Func("(*Policy).sanitizeAttrs [attribute filter and the crossorigin / sandbox passes]", "(*Policy).RequireSandboxOnIFrame", "(*Policy).AllowIFrames", "(*Policy).RequireCrossOriginAnonymous")
	ev.Bound("attributes_per_tag", maxAttrs)
	ev.Bound("sandbox_tokens_per_value", K)
	ev.Bound("sandbox_subsets", "all 2^14 subsets at once (one symbolic boolean per documented token)")
	ev.Bound("elements", "audio, img, link, script, video, iframe and one generic element")
	// builder table
	ub, err := c.exploreUnit(ev, "HarnessC12_builder", sym.Config{})
	if err != nil {
		return nil, err
	}
	var viols []Violation
	for _, r := range dischargeAll(ub.In, ev, ub.Obs, nil, timeout, grace, "C12b") {
		if r.Res.Status == smt.Sat || (r.Ob.Cond.IsFalse()) {
			req := NativeReq{"op": "sanitize", "policy": []NativeReq{{"op": "base", "name": "New"}, {"op": "AllowIFrames", "vals": []int{0, 1, 2, 3, 4, 5, 6, 7, 8, 9, 10, 11, 12, 13}}}, "input": `<iframe sandbox="` + strings.Join(sandboxTokens, " ") + `"></iframe>`}
			nres, nerr := RunNative(c.Repo, c.VerifDir, []NativeReq{req}, "")
			if nerr != nil {
				return nil, nerr
			}
			out, _ := nres[0]["output"].(string)
			missing := ""
			for _, t := range sandboxTokens {
				if !strings.Contains(out, t) {
					missing = t
				}
			}
			if missing != "" {
				ev.AddReplayed(1)
				viols = append(viols, Violation{Sig: "site=RequireSandboxOnIFrame " + r.Ob.ID, Detail: fmt.Sprintf("builder table wrong (%s): all fourteen values allowed, output %q lacks %s", r.Ob.ID, out, missing), Replay: []NativeReq{req}})
			} else {
				ev.Inconclusive("C12 builder assertion " + r.Ob.ID + " fails symbolically but the native run looks fine")
			}
			break
		}
	}
	ub.In.Close()
	ur, err := c.exploreUnit(ev, "HarnessC12_forced", sym.Config{Params: map[string]int{"maxAttrs": maxAttrs}, SplitMax: K})
	if err != nil {
		return nil, err
	}
	defer ur.In.Close()
	seen := map[string]bool{}
	budget := newReplayBudget()
	v2, reachM, err := c.runUnitObligations(ev, ur, "C12", timeout, grace, func(r UnitResult) (*Violation, error) {
		var failed []string
		for k, v := range r.Notes {
			if strings.HasPrefix(k, "c:") && !v.B {
				failed = append(failed, strings.TrimPrefix(k, "c:"))
			}
		}
		sort.Strings(failed)
		sig := "conjunct=" + strings.Join(failed, "+")
		if seen[sig] || !budget.allow(sig) {
			return nil, nil
		}
		el := r.Notes["el"].S
		mode := int(r.Notes["mode"].I)
		in := attrsFromNotes(r.Notes, "in")
		want := attrsFromNotes(r.Notes, "out")
		allowed := map[string]bool{}
		var vals []int
		for i, t := range sandboxTokens {
			if r.Notes["sb."+t].B {
				allowed[t] = true
				vals = append(vals, i)
			}
		}
		pol := []NativeReq{{"op": "base", "name": "Zero"}, {"op": "AllowAttrs", "attrs": []string{"crossorigin", "sandbox", "other"}, "scope": "globally"}}
		if mode != 1 {
			pol = append(pol, NativeReq{"op": "flag", "name": "RequireCrossOriginAnonymous", "val": true})
		}
		if mode != 0 {
			pol = append(pol, NativeReq{"op": "RequireSandboxOnIFrame", "vals": vals})
		}
		req := NativeReq{"op": "sanitizeAttrs", "policy": pol, "element": el, "attrs": attrsToJSON(in)}
		nres, nerr := RunNative(c.Repo, c.VerifDir, []NativeReq{req}, "")
		if nerr != nil {
			return nil, nerr
		}
		got := decodeAttrs(nres[0]["attrs"])
		why := c12Oracle(el, mode, allowed, got)
		ev.Sample(map[string]interface{}{"query": "C12 counterexample", "element": el, "mode": mode, "in": in, "model_out": want, "native_out": got, "native_oracle": why})
		if why == "" {
			ev.Inconclusive(fmt.Sprintf("C12: model on path %d did not reproduce natively: el=%s in=%q model-out=%q native-out=%q", r.Ob.PathID, el, in, want, got))
			return nil, nil
		}
		ev.AddReplayed(1)
		seen[sig] = true
		return &Violation{Sig: "site=forced-attributes " + sig, Detail: fmt.Sprintf("<%s> mode=%d allowed=%v in=%q out=%q: %s", el, mode, vals, in, got, why), Replay: []NativeReq{req}}, nil
	})
	if err != nil {
		return nil, err
	}
	viols = append(viols, v2...)
	reach := reachM["C12-emitted-with-attributes"]
	budget.report(ev, "C12")
	if reach == 0 {
		ev.Inconclusive("vacuity: no path on which the element is emitted with attributes is satisfiable")
	}
	return viols, nil
}
