package checks

import (
	"fmt"
	"net/url"
	"sort"
	"strings"
	"time"

	"bmsym/smt"
	"bmsym/sym"
)

const validURLFn = "(*github.com/microcosm-cc/bluemonday.Policy).validURL"

func unitTimeouts(c *Ctx) (time.Duration, time.Duration) {
	if c.Tier == "thorough" {
		return 60 * time.Second, 10 * time.Second
	}
	return 15 * time.Second, 500 * time.Millisecond
}

func hasTok(v, t string) bool {
	for _, f := range strings.Fields(v) {
		if strings.EqualFold(f, t) {
			return true
		}
	}
	return false
}

func firstOf(as [][2]string, k string) (string, bool) {
	for _, a := range as {
		if a[0] == k {
			return a[1], true
		}
	}
	return "", false
}

// c11Oracle is the property's observation on concrete attribute lists.
func c11Oracle(el string, opts int, in, out [][2]string) string {
	nf, nffq, nr, nrfq, tb := opts&1 != 0, opts&2 != 0, opts&4 != 0, opts&8 != 0, opts&16 != 0
	href, ok := firstOf(out, "href")
	if !ok {
		return ""
	}
	ext := false
	if u, err := url.Parse(href); err == nil && u.Host != "" {
		ext = true
	}
	rel, hasRel := firstOf(out, "rel")
	if el == "a" || el == "area" || el == "link" {
		if (nf || nffq && ext) && !(hasRel && hasTok(rel, "nofollow")) {
			return fmt.Sprintf("rel=%q lacks the token nofollow", rel)
		}
		if (nr || nrfq && ext) && !(hasRel && hasTok(rel, "noreferrer")) {
			return fmt.Sprintf("rel=%q lacks the token noreferrer", rel)
		}
	}
	if el == "a" {
		tgt, hasT := firstOf(out, "target")
		if tb && ext && !(hasT && tgt == "_blank") {
			return "host-qualified link without target=_blank"
		}
		if hasT && tgt == "_blank" && !(hasRel && hasTok(rel, "noopener")) {
			return fmt.Sprintf("target=_blank but rel=%q lacks the token noopener", rel)
		}
	}
	if inRel, ok := firstOf(in, "rel"); ok && hasRel {
		if !strings.HasPrefix(rel, inRel) {
			return fmt.Sprintf("existing rel %q not kept in %q", inRel, rel)
		}
		for _, t := range []string{"nofollow", "noreferrer", "noopener"} {
			if hasTok(inRel, t) && strings.Contains(rel[len(inRel):], " "+t) {
				return fmt.Sprintf("token %s already present in %q was added again: %q", t, inRel, rel)
			}
		}
	}
	return ""
}

func c11PolicyDSL(opts int, parseOff bool) []NativeReq {
	flag := func(n string, v bool) NativeReq { return NativeReq{"op": "flag", "name": n, "val": v} }
	pol := c11PolicyBase(opts)
	if parseOff {
		pol = append(pol, flag("RequireParseableURLs", false))
	}
	return pol
}

func c11PolicyBase(opts int) []NativeReq {
	flag := func(n string, v bool) NativeReq { return NativeReq{"op": "flag", "name": n, "val": v} }
	return []NativeReq{
		{"op": "base", "name": "Zero"},
		flag("RequireNoFollowOnLinks", opts&1 != 0),
		flag("RequireNoFollowOnFullyQualifiedLinks", opts&2 != 0),
		flag("RequireNoReferrerOnLinks", opts&4 != 0),
		flag("RequireNoReferrerOnFullyQualifiedLinks", opts&8 != 0),
		flag("AddTargetBlankToFullyQualifiedLinks", opts&16 != 0),
		flag("AllowRelativeURLs", true),
		{"op": "AllowURLSchemes", "schemes": []string{"http", "https"}},
		{"op": "AllowAttrs", "attrs": []string{"href", "rel", "target", "other"}, "scope": "globally"},
	}
}

// C11: link hardening.
func runC11(c *Ctx, ev *Evidence) ([]Violation, error) {
	timeout, grace := unitTimeouts(c)
	maxAttrs, all := 2, 0
	if c.Tier == "thorough" {
		maxAttrs, all = 2, 1 // three attributes with all 31 combinations exceed the hour budget (100k+ obligations)
	}
	cfg := sym.Config{Stubs: map[string]string{validURLFn: "stubValidURL"}, Params: map[string]int{"maxAttrs": maxAttrs, "allOptions": all}, SplitMax: 3}
	if c.Tier == "thorough" {
		cfg.SplitMax = 4
	}
	// If the tree has a rel-token helper, summarise it by the regular
	// predicate "v has the white-space delimited token t (ASCII case folded)"
	// after proving that equivalence on the helper's body.
	const helper = "github.com/microcosm-cc/bluemonday.hasRelToken"
	{
		lin, err := c.NewInterp(sym.Config{SplitMax: cfg.SplitMax + 1, NoFeasCheck: true})
		if err != nil {
			return nil, err
		}
		allOK := lin.FindFunc(helper) != nil
		if allOK {
			for _, t := range []string{"nofollow", "noreferrer", "noopener"} {
				v := smt.Var("lemma.v", smt.String)
				ok, cex, err := c.proveSummary(ev, lin, helper, []sym.Value{v, smt.StrC(t)}, sym.HasToken(v, t), timeout, "C11-lemma-hasRelToken-"+t)
				if err != nil {
					c.Log("lemma for %s not applicable: %v", helper, err)
				}
				if !ok {
					allOK = false
					if cex != nil {
						c.Log("hasRelToken(%q, %q) differs from the token predicate; running without summary", cex["lemma.v"].S, t)
					}
					break
				}
			}
		}
		lin.Close()
		if allOK {
			cfg.Summaries = map[string]func(in *sym.Interp, st *sym.State, args []sym.Value) sym.Value{helper: func(in *sym.Interp, st *sym.State, args []sym.Value) sym.Value {
				t := args[1].(*smt.Term)
				if !t.IsConst() {
					panic("hasRelToken summary needs a constant token")
				}
				return sym.HasToken(args[0].(*smt.Term), t.S)
			}}
			ev.Bound("rel_tokens", fmt.Sprintf("hasRelToken proven equal to the regular token predicate for values with at most %d tokens, then used as a summary", cfg.SplitMax+1))
		}
	}
	ur, err := c.exploreUnit(ev, "HarnessC11_links", cfg)
	if err != nil {
		return nil, err
	}
	defer ur.In.Close()
	ev.Func("(*Policy).sanitizeAttrs [attribute filter, URL phase with validURL stubbed, link-hardening phase]", "linkable", "RequireNoFollowOnLinks & the four sibling option setters")
	ev.Bound("attributes_per_tag", maxAttrs)
	ev.Bound("attribute_keys", "each key is href, rel, target, other or a free string; any order and multiplicity")
	if all == 1 {
		ev.Bound("option_combinations", "all 31 non-empty combinations of the five link options")
	} else {
		ev.Bound("option_combinations", "8 of the 31 combinations (each option alone, all five, both fully-qualified variants, nofollow+noreferrer+target)")
	}
	ev.Bound("elements", "a, area, link and one generic element")
	ev.Assume("A3: url.Parse is an uninterpreted function of the string (ok, host); the oracle's 'href has a host' uses the same function on the emitted href",
		"(*Policy).validURL is replaced by an arbitrary verdict and arbitrary normalised value (its behaviour is C03's subject)",
		"scoping: noopener is required of an <a> that carries an href (the statement's first sentence and the code block are conditioned on an href)")
	seen := map[string]bool{}
	budget := newReplayBudget()
	viols, reachM, err := c.runUnitObligations(ev, ur, "C11", timeout, grace, func(r UnitResult) (*Violation, error) {
		// which conjuncts fail in the model
		var failed []string
		for k, v := range r.Notes {
			if strings.HasPrefix(k, "c:") && !v.B {
				failed = append(failed, strings.TrimPrefix(k, "c:"))
			}
		}
		sort.Strings(failed)
		sig := "conjunct=" + strings.Join(failed, "+")
		if seen[sig] || !budget.allow(sig) {
			return nil, nil
		}
		// witness refinement: replayable URLs, validURL as identity
		var extra []*smt.Term
		nt := noteTerms(r.Ob)
		for i := 0; ; i++ {
			raw, ok := nt[fmt.Sprintf("urlstub%d.raw", i)]
			if !ok {
				break
			}
			extra = append(extra, smt.Eq(nt[fmt.Sprintf("urlstub%d.out", i)], raw), nt[fmt.Sprintf("urlstub%d.ok", i)], simpleURLConstraint(raw))
		}
		if pv, ok := r.Notes["parseOff"]; ok && pv.B {
			// URL checking is off: the values are raw; make them concrete from a
			// candidate list that includes references url.Parse rejects
			cands := []string{"http://a/b", "/p", "%zz", "http://a/%", "_blank", "nofollow", "x"}
			for _, cnd := range cands {
				extra = append(extra, groundURLFacts(cnd, 1)...)
			}
			for i := 0; ; i++ {
				v, ok := nt[fmt.Sprintf("in.v%d", i)]
				if !ok {
					break
				}
				if v.IsConst() {
					continue
				}
				var ds []*smt.Term
				for _, cnd := range cands {
					ds = append(ds, smt.Eq(v, smt.StrC(cnd)))
				}
				extra = append(extra, smt.Or(ds...))
			}
		}
		r2 := solveOb(ur.In, r.Ob, extra, timeout, grace, fmt.Sprintf("C11-refine-p%d", r.Ob.PathID))
		ev.Query(fmt.Sprintf("C11-refine-p%d", r.Ob.PathID), r2.Res)
		if r2.Res.Status != smt.Sat {
			ev.Inconclusive(fmt.Sprintf("C11: counterexample on path %d (failing: %s) has no replayable refinement (%s)", r.Ob.PathID, sig, r2.Res.Status))
			return nil, nil
		}
		el := r2.Notes["el"].S
		opts := int(r2.Notes["opts"].I)
		in := attrsFromNotes(r2.Notes, "in")
		want := attrsFromNotes(r2.Notes, "out")
		req := NativeReq{"op": "sanitizeAttrs", "policy": c11PolicyDSL(opts, r2.Notes["parseOff"].B), "element": el, "attrs": attrsToJSON(in)}
		nres, nerr := RunNative(c.Repo, c.VerifDir, []NativeReq{req}, "")
		if nerr != nil {
			return nil, nerr
		}
		got := decodeAttrs(nres[0]["attrs"])
		why := c11Oracle(el, opts, in, got)
		ev.Sample(map[string]interface{}{"query": "C11 counterexample", "element": el, "options": opts, "in": in, "model_out": want, "native_out": got, "native_oracle": why})
		if why == "" {
			ev.Inconclusive(fmt.Sprintf("C11: model on path %d did not reproduce natively: el=%s opts=%d in=%q model-out=%q native-out=%q", r.Ob.PathID, el, opts, in, want, got))
			return nil, nil
		}
		ev.AddReplayed(1)
		seen[sig] = true
		return &Violation{Sig: "site=link-hardening " + sig, Detail: fmt.Sprintf("<%s> options=%05b in=%q out=%q: %s", el, opts, in, got, why), Replay: []NativeReq{req}}, nil
	})
	if err != nil {
		return nil, err
	}
	reach := reachM["C11-href-survives"]
	budget.report(ev, "C11")
	if reach == 0 {
		ev.Inconclusive("vacuity: no path on which an href survives is satisfiable")
	}
	return viols, nil
}
