package checks

import (
	"fmt"
	"sort"
	"strings"

	"bmsym/smt"
	"bmsym/sym"
)

// attrsChecks runs the generic attribute harnesses; which selects the
// assertion family ("C02" or "C07").
func runAttrs(c *Ctx, ev *Evidence, which string) ([]Violation, error) {
	timeout, grace := unitTimeouts(c)
	maxAttrs, entries := 2, 1
	if c.Tier == "thorough" {
		maxAttrs, entries = 3, 1 // (3, 2) needs more than 60 GB for the path set
	}
	ev.Func("(*Policy).sanitizeAttrs [attribute filter: data attributes, element rules, global rules]", "isDataAttribute", "(*Policy).matchRegex", "linkable")
	ev.Bound("attributes_per_tag", maxAttrs)
	ev.Bound("table_entries", fmt.Sprintf("%d symbolic key(s) per table (element rules, global rules); rule lists of the shapes [R], [R,R'], [nil], [R,nil] with R opaque patterns", entries))
	ev.Bound("element", "a generic element name outside the URL-bearing elements (those are C03's subject); all rewriting options off")
	ev.Assume("A1: attribute keys contain no ASCII upper case, white space, '/', '>' or '='",
		"value patterns are uninterpreted predicates, judged on the value the tokenizer delivered (already HTML-decoded)")
	var viols []Violation
	// generic filter
	ur, err := c.exploreUnit(ev, "HarnessAttrs_generic", sym.Config{Params: map[string]int{"maxAttrs": maxAttrs, "tableEntries": entries}})
	if err != nil {
		return nil, err
	}
	seen := map[string]bool{}
	budget := newReplayBudget()
	v2, reachM, err := c.runUnitObligations(ev, ur, which, timeout, grace, func(r UnitResult) (*Violation, error) {
		var failed []string
		for k, v := range r.Notes {
			if strings.HasPrefix(k, "c:"+which) && !v.B {
				failed = append(failed, strings.TrimPrefix(k, "c:"))
			}
		}
		if len(failed) == 0 {
			return nil, nil // the other family's conjunct failed; that check reports it
		}
		sort.Strings(failed)
		sig := "conjunct=" + strings.Join(failed, "+")
		if seen[sig] || !budget.allow(sig) {
			return nil, nil
		}
		v, err := replayAttrsGeneric(c, ev, ur.In, r, which, sig)
		if v != nil {
			seen[sig] = true
		}
		return v, err
	})
	if err != nil {
		return nil, err
	}
	viols = append(viols, v2...)
	reach := reachM["ATTRS-reach"]
	budget.report(ev, which)
	ur.In.Close()
	if reach == 0 {
		ev.Inconclusive("vacuity: generic attribute harness unreachable")
	}
	// pattern merge (call-site contract of sanitizeAttrs for pattern-matched elements)
	um, err := c.exploreUnit(ev, "HarnessAttrs_matchRegex", sym.Config{MapOrders: true})
	if err != nil {
		return nil, err
	}
	for _, r := range dischargeAll(um.In, ev, um.Obs, func(ob *sym.Obligation) bool { return strings.HasPrefix(ob.ID, which) }, timeout, grace, which+"-merge") {
		switch r.Res.Status {
		case smt.Unknown:
			ev.Inconclusive("matchRegex obligation undecided: " + r.Ob.ID)
		case smt.Sat:
			// replay: two overlapping patterns with different rules for one attribute
			req := NativeReq{"op": "sanitize", "policy": []NativeReq{{"op": "base", "name": "Zero"},
				{"op": "AllowAttrs", "attrs": []string{"k"}, "matching": "^one$", "scope": "matching", "elre": "^x"},
				{"op": "AllowAttrs", "attrs": []string{"k"}, "matching": "^two$", "scope": "matching", "elre": "y$"}},
				"input": `<xy k="one"></xy><xy k="two"></xy><xq k="two"></xq>`}
			nres, nerr := RunNative(c.Repo, c.VerifDir, []NativeReq{req}, "")
			if nerr != nil {
				return nil, nerr
			}
			out, _ := nres[0]["output"].(string)
			want := `<xy k="one"></xy><xy k="two"></xy>`
			if out != want {
				ev.AddReplayed(1)
				viols = append(viols, Violation{Sig: "site=matchRegex " + r.Ob.ID, Detail: fmt.Sprintf("overlapping element patterns: got %q, want %q", out, want), Replay: []NativeReq{req}})
			} else {
				ev.Inconclusive("matchRegex counterexample (" + r.Ob.ID + ") did not reproduce with the fixed replay input")
			}
		}
	}
	um.In.Close()
	if which == "C02" {
		// data attributes
		ud, err := c.exploreUnit(ev, "HarnessAttrs_data", sym.Config{SplitMax: 3})
		if err != nil {
			return nil, err
		}
		kept := 0
		for _, r := range dischargeAll(ud.In, ev, ud.Obs, nil, timeout*2, grace, "C02-data") {
			if r.Ob.Kind == "reach" {
				if r.Res.Status == smt.Sat {
					kept++
				}
				continue
			}
			switch r.Res.Status {
			case smt.Unknown:
				ev.Inconclusive(fmt.Sprintf("data attribute obligation on path %d undecided: %s", r.Ob.PathID, r.Res.Note))
			case smt.Sat:
				in := attrsFromNotes(r.Notes, "in")
				req := NativeReq{"op": "sanitizeAttrs", "policy": []NativeReq{{"op": "base", "name": "Zero"}, {"op": "flag", "name": "AllowDataAttributes", "val": true}}, "element": "div", "attrs": attrsToJSON(in)}
				nres, nerr := RunNative(c.Repo, c.VerifDir, []NativeReq{req}, "")
				if nerr != nil {
					return nil, nerr
				}
				got := decodeAttrs(nres[0]["attrs"])
				key := in[0][0]
				wf := strings.HasPrefix(key, "data-") && len(key) > 5 && key == strings.ToLower(key)
				if len(got) == 1 && !wf {
					ev.AddReplayed(1)
					viols = append(viols, Violation{Sig: "site=isDataAttribute", Detail: fmt.Sprintf("attribute %q kept as a data attribute although it is not a well-formed data-* name", key), Replay: []NativeReq{req}})
				} else {
					ev.Inconclusive(fmt.Sprintf("data attribute model %q did not reproduce natively", key))
				}
			}
		}
		if kept == 0 {
			ev.Inconclusive("vacuity: no data attribute is ever kept")
		}
		ud.In.Close()
		// never emitted bare unless allowed without attributes (loop level)
		lr, err := c.loopSetup(ev, "HarnessLoop_step", 1)
		if err != nil {
			return nil, err
		}
		ps := lr.PS
		r, _ := lr.inductive("C02-bare", nil, func(sv *StepVars) *smt.Term { return smt.Not(ps.AllowUnsafe) }, func(sv *StepVars) *smt.Term {
			return smt.And(sv.Written, smt.Or(kindIs(sv.Kind, 2), kindIs(sv.Kind, 4)), smt.Eq(sv.OutNAttr, smt.IntC(0)), smt.Not(ps.BareOK(sv.Data)))
		}, timeout*2)
		ev.Query("C02-bare-inductive", r)
		ev.Sample(map[string]interface{}{"query": "C02-bare-inductive: a start/self-closing tag is written with no attributes although the element is not allowed without attributes", "verdict": r.Status.String(), "seconds": r.Seconds})
		if r.Status == smt.Unknown {
			ev.Inconclusive("C02 bare-element query undecided")
		}
		if r.Status == smt.Sat {
			found, details, replays, err := c.searchWitness(lr, ev, "C02-bare", 2,
				func(steps []*StepVars) *smt.Term { return smt.Not(ps.AllowUnsafe) },
				func(steps []*StepVars) *smt.Term {
					sv := steps[len(steps)-1]
					return smt.And(sv.Written, smt.Or(kindIs(sv.Kind, 2), kindIs(sv.Kind, 4)), smt.Eq(sv.OutNAttr, smt.IntC(0)), smt.Not(ps.BareOK(sv.Data)))
				},
				func(w *seqWitness, res map[string]interface{}) (bool, string) {
					for _, t := range decodeTokens(res["out_tokens"]) {
						if (t.Type == "StartTag" || t.Type == "SelfClosing") && len(t.Attrs) == 0 {
							bare := false
							for _, b := range w.Bare {
								if b == t.Data && w.allowed(b) {
									bare = true
								}
							}
							for _, tb := range w.BareRe {
								if tb[t.Data] {
									bare = true
								}
							}
							if !bare {
								return true, "element " + t.Data + " emitted without attributes although the policy permits it only with attributes"
							}
						}
					}
					return false, ""
				}, timeout*2, nil, 4)
			if err != nil {
				return nil, err
			}
			if len(found) == 0 {
				ev.Inconclusive("C02 bare-element: counterexample to the inductive step but no replayable sequence")
			}
			for i := range found {
				viols = append(viols, Violation{Sig: "site=loop-bare " + shapeOf(found[i]), Detail: details[i], Replay: replays[i]})
			}
		}
		lr.In.Close()
	}
	return viols, nil
}

func runC02(c *Ctx, ev *Evidence) ([]Violation, error) { return runAttrs(c, ev, "C02") }
func runC07(c *Ctx, ev *Evidence) ([]Violation, error) { return runAttrs(c, ev, "C07") }

// replayAttrsGeneric rebuilds the model's policy through the builder API and
// runs the real sanitizeAttrs.
func replayAttrsGeneric(c *Ctx, ev *Evidence, in *sym.Interp, r UnitResult, which, sig string) (*Violation, error) {
	inAttrs := attrsFromNotes(r.Notes, "in")
	want := attrsFromNotes(r.Notes, "out")
	el := r.Notes["el"].S
	// recover the tables: variables aps.key*, glob.key*, choices aps.shape*, pattern tables match.<tag>(val)
	keys := map[string]string{}
	for n, v := range r.UFVals {
		if strings.HasPrefix(n, "$aps.key") || strings.HasPrefix(n, "$glob.key") {
			keys[strings.TrimPrefix(n, "$")] = v.S
		}
	}
	// pattern tables from UF applications
	tables := map[string]map[string]bool{}
	for n, t := range r.Terms {
		if !strings.HasPrefix(n, "@") || t.Op != "uf" || !strings.HasPrefix(t.Name, "match.") {
			continue
		}
		arg := r.UFVals["@"+t.Args[0].String()]
		if tables[t.Name] == nil {
			tables[t.Name] = map[string]bool{}
		}
		tables[t.Name][arg.S] = r.UFVals[n].B
	}
	shapeOf := func(tag string) int {
		if v, ok := r.Ob.Ghost["choice:"+tag].(*smt.Term); ok && v.IsConst() {
			return int(v.I)
		}
		return -1
	}
	pol := []NativeReq{{"op": "base", "name": "Zero"}}
	addRules := func(prefix, key string, idx int, scope string) {
		stag := prefix + ".shape"
		if idx > 0 {
			stag = fmt.Sprintf("%s.shape#%d", prefix, idx+1)
		}
		shape := shapeOf(stag)
		// regexps are numbered in creation order across the table
		mk := func(reTag string) NativeReq {
			tab := map[string]bool{}
			for k, v := range tables["match."+reTag] {
				tab[k] = v
			}
			rq := NativeReq{"op": "AllowAttrs", "attrs": []string{key}, "matching_table": tab, "scope": scope}
			if scope == "elements" {
				rq["elements"] = []string{el}
			}
			return rq
		}
		plain := NativeReq{"op": "AllowAttrs", "attrs": []string{key}, "scope": scope}
		if scope == "elements" {
			plain["elements"] = []string{el}
		}
		reName := func(n int) string {
			if n == 0 {
				return prefix + ".re"
			}
			return fmt.Sprintf("%s.re#%d", prefix, n+1)
		}
		base := reCount[prefix]
		switch shape {
		case 0:
			pol = append(pol, mk(reName(base)))
			reCount[prefix]++
		case 1:
			pol = append(pol, mk(reName(base)), mk(reName(base+1)))
			reCount[prefix] += 2
		case 2:
			pol = append(pol, plain)
		case 3:
			pol = append(pol, mk(reName(base)), plain)
			reCount[prefix]++
		}
	}
	reCount = map[string]int{}
	for i := 0; ; i++ {
		n := "aps.key"
		if i > 0 {
			n = fmt.Sprintf("aps.key#%d", i+1)
		}
		k, ok := keys[n]
		if !ok {
			break
		}
		addRules("aps", k, i, "elements")
	}
	for i := 0; ; i++ {
		n := "glob.key"
		if i > 0 {
			n = fmt.Sprintf("glob.key#%d", i+1)
		}
		k, ok := keys[n]
		if !ok {
			break
		}
		addRules("glob", k, i, "globally")
	}
	req := NativeReq{"op": "sanitizeAttrs", "policy": pol, "element": el, "attrs": attrsToJSON(inAttrs)}
	nres, nerr := RunNative(c.Repo, c.VerifDir, []NativeReq{req}, "")
	if nerr != nil {
		return nil, nerr
	}
	got := decodeAttrs(nres[0]["attrs"])
	// native oracle: recompute "allowed" from the model's tables
	allowed := make([]bool, len(inAttrs))
	for j := range inAttrs {
		allowed[j] = r.Notes[fmt.Sprintf("allowed%d", j)].B
	}
	why := ""
	if which == "C02" {
		for _, o := range got {
			ok := false
			for j, a := range inAttrs {
				if a == o && allowed[j] {
					ok = true
				}
			}
			if !ok {
				why = fmt.Sprintf("attribute %s=%q is emitted although no rule accepts it", o[0], o[1])
			}
		}
	} else {
		var exp [][2]string
		all := true
		for j, a := range inAttrs {
			if allowed[j] {
				exp = append(exp, a)
			} else {
				all = false
			}
		}
		if all && !attrsEqual(got, inAttrs) {
			why = fmt.Sprintf("every attribute is accepted by some rule but the list changed: %q", got)
		}
		_ = exp
	}
	ev.Sample(map[string]interface{}{"query": which + " counterexample", "element": el, "in": inAttrs, "policy": pol, "model_out": want, "native_out": got, "native_oracle": why})
	if why == "" {
		ev.Inconclusive(fmt.Sprintf("%s: model on path %d did not reproduce natively: in=%q model-out=%q native-out=%q policy=%v", which, r.Ob.PathID, inAttrs, want, got, pol))
		return nil, nil
	}
	ev.AddReplayed(1)
	return &Violation{Sig: "site=attribute-filter " + sig, Detail: fmt.Sprintf("<%s> in=%q out=%q policy=%v: %s", el, inAttrs, got, pol, why), Replay: []NativeReq{req}}, nil
}

var reCount map[string]int
