package checks

import (
	"bufio"
	"crypto/sha256"
	"encoding/json"
	"fmt"
	"os"
	"os/exec"
	"path/filepath"
	"sort"
	"strconv"
	"strings"
	"sync"
	"time"

	"bmsym/load"
	"bmsym/smt"
)

// Evidence mirrors EVIDENCE.schema.json (level model_checking).
type Evidence struct {
	PropertyID  string                 `json:"property_id"`
	Tier        string                 `json:"tier"`
	Seed        int                    `json:"seed"`
	Level       string                 `json:"level"`
	Coverage    map[string]interface{} `json:"coverage"`
	Assumptions []string               `json:"assumptions"`
	WallS       float64                `json:"wall_s"`
	Violations  int                    `json:"violations"`

	mu          sync.Mutex
	states      int
	transitions int
	replayed    int
	samples     []interface{}
	queries     map[string]int
	obligations int
	nontrivial  map[string]bool
	funcs       map[string]bool
	bounds      map[string]interface{}
	incon       []string
	known       []string
	outside     []string
}

func NewEvidence(id, tier string) *Evidence {
	seed, _ := strconv.Atoi(os.Getenv("VERIF_SEED"))
	return &Evidence{PropertyID: id, Tier: tier, Seed: seed, Level: "model_checking",
		queries: map[string]int{}, nontrivial: map[string]bool{}, funcs: map[string]bool{}, bounds: map[string]interface{}{}}
}

func (e *Evidence) AddStates(n int)      { e.mu.Lock(); e.states += n; e.mu.Unlock() }
func (e *Evidence) AddTransitions(n int) { e.mu.Lock(); e.transitions += n; e.mu.Unlock() }
func (e *Evidence) AddReplayed(n int)    { e.mu.Lock(); e.replayed += n; e.mu.Unlock() }
func (e *Evidence) Func(names ...string) {
	e.mu.Lock()
	for _, n := range names {
		e.funcs[n] = true
	}
	e.mu.Unlock()
}
func (e *Evidence) Bound(k string, v interface{}) { e.mu.Lock(); e.bounds[k] = v; e.mu.Unlock() }
func (e *Evidence) Assume(a ...string) {
	e.mu.Lock()
	defer e.mu.Unlock()
	for _, x := range a {
		dup := false
		for _, y := range e.Assumptions {
			if x == y {
				dup = true
			}
		}
		if !dup {
			e.Assumptions = append(e.Assumptions, x)
		}
	}
}
func (e *Evidence) Outside(a string) {
	e.mu.Lock()
	defer e.mu.Unlock()
	for _, y := range e.outside {
		if a == y {
			return
		}
	}
	e.outside = append(e.outside, a)
}
func (e *Evidence) Inconclusive(s string) { e.mu.Lock(); e.incon = append(e.incon, s); e.mu.Unlock() }
func (e *Evidence) Known(s string)        { e.mu.Lock(); e.known = append(e.known, s); e.mu.Unlock() }

// Query records a discharged query; key identifies the obligation (used for
// the distinct count).
func (e *Evidence) Query(key string, r smt.Result) {
	e.mu.Lock()
	defer e.mu.Unlock()
	e.queries[r.Status.String()]++
	e.obligations++
	e.nontrivial[key] = true
}
func (e *Evidence) Sample(s interface{}) {
	e.mu.Lock()
	defer e.mu.Unlock()
	if len(e.samples) < 12 {
		e.samples = append(e.samples, s)
	}
}

func (e *Evidence) Write(path string, start time.Time, violations int) error {
	e.mu.Lock()
	defer e.mu.Unlock()
	var fl []string
	for f := range e.funcs {
		fl = append(fl, f)
	}
	sort.Strings(fl)
	st := smt.GlobalStats
	solverS := map[string]float64{}
	for k, v := range st.SolverSeconds {
		solverS[k] = float64(int(v*1000)) / 1000
	}
	if e.states == 0 {
		e.states = 1
	}
	if e.transitions == 0 {
		e.transitions = 1
	}
	if len(e.samples) == 0 {
		e.samples = []interface{}{"no sample recorded"}
	}
	e.Coverage = map[string]interface{}{
		"states":                        e.states,
		"transitions":                   e.transitions,
		"traces_validated_against_impl": e.replayed,
		"samples":                       e.samples,
		"evaluations":                   int(st.Queries),
		"distinct_nontrivial":           len(e.nontrivial),
		"rule":                          "one evaluation = one SMT query (path feasibility, assertion, witness); distinct_nontrivial = distinct (obligation, path) pairs whose query was not decided syntactically",
		"explanation":                   "bounded symbolic execution of the real functions (go/ssa, regenerated from the working tree) with SMT-discharged assertions; states = feasible symbolic paths or regex languages, transitions = obligations (assertion x path) discharged",
		"functions_encoded":             fl,
		"bounds":                        e.bounds,
		"queries":                       map[string]interface{}{"solver_conflicts": st.Conflicts, "unsat_from_one_solver_only": st.SingleUnsat, "sat": st.SatN, "unsat": st.UnsatN, "unknown": st.UnknownN, "total": st.Queries, "obligations": e.obligations, "obligation_results": e.queries},
		"solver_time_s":                 solverS,
		"answers_by_solver":             st.BySolver,
		"inconclusive":                  e.incon,
		"known_findings_reproduced":     e.known,
		"outside_claim":                 e.outside,
		"exhaustive":                    false,
	}
	e.WallS = time.Since(start).Seconds()
	e.Violations = violations
	if e.Assumptions == nil {
		e.Assumptions = []string{}
	}
	b, err := json.MarshalIndent(e, "", " ")
	if err != nil {
		return err
	}
	os.MkdirAll(filepath.Dir(path), 0o755)
	return os.WriteFile(path, b, 0o644)
}

// ---- known findings

type Finding struct {
	Kind     string // "finding" or "fixed"
	Property string
	Sig      string // for finding: the signature to match
	Line     string
}

func LoadFindings(path string) ([]Finding, error) {
	f, err := os.Open(path)
	if err != nil {
		if os.IsNotExist(err) {
			return nil, nil
		}
		return nil, err
	}
	defer f.Close()
	var out []Finding
	sc := bufio.NewScanner(f)
	for sc.Scan() {
		l := strings.TrimSpace(sc.Text())
		if l == "" || strings.HasPrefix(l, "#") {
			continue
		}
		var fd Finding
		fd.Line = l
		switch {
		case strings.HasPrefix(l, "finding:"):
			fd.Kind = "finding"
			l = strings.TrimSpace(strings.TrimPrefix(l, "finding:"))
		case strings.HasPrefix(l, "fixed:"):
			fd.Kind = "fixed"
			l = strings.TrimSpace(strings.TrimPrefix(l, "fixed:"))
		default:
			continue
		}
		fs := strings.SplitN(l, " ", 2)
		fd.Property = strings.TrimPrefix(fs[0], "property=")
		if len(fs) > 1 {
			fd.Sig = strings.TrimSpace(fs[1])
		}
		out = append(out, fd)
	}
	return out, nil
}

// MatchFinding reports whether a violation signature is a listed finding.
// A finding line is "finding: property=<id> sig=<signature> note=..." and
// matches when its sig equals the violation's signature.
func MatchFinding(fs []Finding, prop, sig string) *Finding {
	for i, f := range fs {
		if f.Kind != "finding" || f.Property != prop {
			continue
		}
		s := f.Sig
		if j := strings.Index(s, " note="); j >= 0 {
			s = s[:j]
		}
		s = strings.TrimPrefix(s, "sig=")
		if s == sig {
			return &fs[i]
		}
	}
	return nil
}

// ---- native runs (replay and model validation)

type NativeReq map[string]interface{}

// RunNative compiles the native test driver overlaid on repo and runs the
// requests through the real code. Returns one result object per request.
func RunNative(repo, verifDir string, reqs []NativeReq, keepDir string) ([]map[string]interface{}, error) {
	dir := keepDir
	if dir == "" {
		d, err := os.MkdirTemp("", "bmsym-native-")
		if err != nil {
			return nil, err
		}
		dir = d
		defer os.RemoveAll(d)
	} else {
		os.MkdirAll(dir, 0o755)
	}
	inPath := filepath.Join(dir, "in.json")
	outPath := filepath.Join(dir, "out.json")
	b, _ := json.MarshalIndent(reqs, "", " ")
	if err := os.WriteFile(inPath, b, 0o644); err != nil {
		return nil, err
	}
	os.Remove(outPath)
	ov := map[string]map[string]string{"Replace": {
		filepath.Join(repo, "zz_verif_native_test.go"): filepath.Join(verifDir, "native", "native_test.go.txt"),
	}}
	ob, _ := json.Marshal(ov)
	ovPath := filepath.Join(dir, "overlay.json")
	os.WriteFile(ovPath, ob, 0o644)
	cmdline := fmt.Sprintf("cd %s && VERIF_NATIVE_IN=%s VERIF_NATIVE_OUT=%s go test -vet=off -count=1 -overlay %s -run '^TestVerifNative$' .", repo, inPath, outPath, ovPath)
	os.WriteFile(filepath.Join(dir, "replay.sh"), []byte("#!/bin/sh\nexport GOFLAGS=-mod=mod GOPROXY=off GOSUMDB=off GOTOOLCHAIN=local\n"+cmdline+" && cat "+outPath+"\n"), 0o755)
	cmd := exec.Command("go", "test", "-vet=off", "-count=1", "-overlay", ovPath, "-run", "^TestVerifNative$", ".")
	cmd.Dir = repo
	cmd.Env = append(load.Env(), "VERIF_NATIVE_IN="+inPath, "VERIF_NATIVE_OUT="+outPath)
	done := make(chan struct{})
	var out []byte
	var err error
	go func() { out, err = cmd.CombinedOutput(); close(done) }()
	select {
	case <-done:
	case <-time.After(10 * time.Minute):
		cmd.Process.Kill()
		return nil, fmt.Errorf("native run timed out")
	}
	rb, rerr := os.ReadFile(outPath)
	if rerr != nil {
		return nil, fmt.Errorf("native run failed: %v\n%s", err, string(out))
	}
	var res []map[string]interface{}
	if e := json.Unmarshal(rb, &res); e != nil {
		return nil, e
	}
	if len(res) != len(reqs) {
		return nil, fmt.Errorf("native run returned %d results for %d requests\n%s", len(res), len(reqs), string(out))
	}
	return res, nil
}

// SourceHash hashes the source files of the analysed packages (evidence).
func SourceHash(repo string) string {
	h := sha256.New()
	files, _ := filepath.Glob(filepath.Join(repo, "*.go"))
	f2, _ := filepath.Glob(filepath.Join(repo, "css", "*.go"))
	files = append(files, f2...)
	sort.Strings(files)
	for _, f := range files {
		if strings.HasSuffix(f, "_test.go") {
			continue
		}
		b, _ := os.ReadFile(f)
		h.Write(b)
	}
	return fmt.Sprintf("%x", h.Sum(nil))[:16]
}
