// Package checks holds the per-property drivers.
package checks

import (
	"fmt"
	"sort"
	"strings"
	"sync"
	"time"

	"bmsym/load"
	"bmsym/smt"
	"bmsym/sym"
)

type Ctx struct {
	Repo, Harness, VerifDir string
	Tier                    string
	L                       *load.Loaded
	Start                   time.Time
	Log                     func(format string, a ...interface{})
	// SkipStepFeas keeps every extracted step path without asking the solvers
	// whether it is feasible (an over-approximation of the step relation).
	SkipStepFeas bool
}

func (c *Ctx) Load(patterns ...string) error {
	l, err := load.Load(c.Repo, c.Harness, patterns...)
	if err != nil {
		return err
	}
	c.L = l
	return nil
}

// NewInterp builds an interpreter over the loaded program and runs the
// package initialisers.
func (c *Ctx) NewInterp(cfg sym.Config) (*sym.Interp, error) {
	var pk = c.L.Pkgs
	// analysed = module packages only
	var mine = pk[:0:0]
	for _, p := range pk {
		if strings.HasPrefix(p.Pkg.Path(), "github.com/microcosm-cc/bluemonday") {
			mine = append(mine, p)
		}
	}
	in := sym.New(c.L.Prog, mine, cfg)
	if err := in.InitGlobals(); err != nil {
		return nil, err
	}
	return in, nil
}

// ObResult is a discharged obligation.
type ObResult struct {
	Ob     *sym.Obligation
	Res    smt.Result
	Values map[string]smt.ModelValue
	Terms  map[string]*smt.Term
}

// RunResult of exploring one harness.
type RunResult struct {
	Harness  string
	States   []*sym.State
	Obs      []ObResult
	Seconds  float64
	ByStatus map[int]int
}

// Explore runs harness function name to completion and discharges all
// obligations (assert: pc ∧ ¬cond must be unsat; reach: pc must be sat).
func (c *Ctx) Explore(in *sym.Interp, name string, timeout time.Duration, extraValues func(ob *sym.Obligation) map[string]*smt.Term) (*RunResult, error) {
	fn := in.FindFunc(name)
	if fn == nil {
		return nil, fmt.Errorf("harness %s not found", name)
	}
	t0 := time.Now()
	in.Obligations = nil
	st := in.NewState()
	states, err := in.RunFrom(st, fn, nil)
	if err != nil {
		return nil, err
	}
	rr := &RunResult{Harness: name, States: states, ByStatus: map[int]int{}}
	for _, s := range states {
		rr.ByStatus[s.Status]++
	}
	obs := in.Obligations
	in.Obligations = nil
	rr.Obs = c.Discharge(in, obs, timeout, extraValues)
	rr.Seconds = time.Since(t0).Seconds()
	return rr, nil
}

// Discharge solves obligations in parallel.
func (c *Ctx) Discharge(in *sym.Interp, obs []*sym.Obligation, timeout time.Duration, extraValues func(ob *sym.Obligation) map[string]*smt.Term) []ObResult {
	out := make([]ObResult, len(obs))
	var wg sync.WaitGroup
	for i, ob := range obs {
		wg.Add(1)
		go func(i int, ob *sym.Obligation) {
			defer wg.Done()
			var asserts []*smt.Term
			asserts = append(asserts, ob.PC...)
			if ob.Kind != "reach" {
				asserts = append(asserts, smt.Not(ob.Cond))
			}
			full := smt.And(asserts...)
			r := ObResult{Ob: ob}
			if full.IsFalse() {
				r.Res = smt.Result{Status: smt.Unsat, Solver: "syntactic"}
				out[i] = r
				return
			}
			asserts = append([]*smt.Term{full}, sym.SideConditions([]*smt.Term{full})...)
			// values: all free variables + extra
			terms := map[string]*smt.Term{}
			for _, a := range asserts {
				smt.Walk(a, func(x *smt.Term) {
					if x.Op == "var" && x.Sort != smt.ArrIS && x.Sort != smt.RegLan {
						terms[x.Name] = x
					}
					if x.Op == "uf" && len(x.Args) > 0 && x.Sort != smt.RegLan {
						terms["@"+x.String()] = x
						for _, a := range x.Args {
							if a.Sort != smt.ArrIS {
								terms["@"+a.String()] = a
							}
						}
					}
				})
			}
			if extraValues != nil {
				for k, v := range extraValues(ob) {
					terms[k] = v
				}
			}
			var names []string
			for k := range terms {
				names = append(names, k)
			}
			sort.Strings(names)
			var vals []*smt.Term
			for _, n := range names {
				vals = append(vals, terms[n])
			}
			q := &smt.Query{Name: fmt.Sprintf("%s-%d", ob.ID, i), Asserts: asserts, Values: vals, Timeout: timeout, Both: true}
			in.WithWorker(func(w *smt.Worker) { r.Res = w.Check(q) })
			if r.Res.Status == smt.Sat {
				r.Values = map[string]smt.ModelValue{}
				for j, n := range names {
					r.Values[n] = r.Res.Values[j]
				}
				r.Terms = terms
			}
			out[i] = r
		}(i, ob)
	}
	wg.Wait()
	return out
}

// Eval evaluates a term under a model (values of variables / UF apps by name).
func StatusName(s int) string {
	return [...]string{"running", "finished", "panicked", "cut", "step-end", "unsupported"}[s]
}
