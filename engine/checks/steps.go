package checks

import (
	"fmt"
	"sort"
	"strings"
	"time"

	"bmsym/smt"
	"bmsym/sym"
)

const sanitizeFn = "(*github.com/microcosm-cc/bluemonday.Policy).sanitize"
const sanitizeAttrsFn = "(*github.com/microcosm-cc/bluemonday.Policy).sanitizeAttrs"

// StepPath is one path through one iteration of sanitize's token loop,
// started from an arbitrary (havocked) loop state.
type StepPath struct {
	ID        int
	PC        *smt.Term
	PCList    []*smt.Term
	Pre, Post map[string]sym.Value // loop-carried variables by source name
	Init      map[string]sym.Value
	Tok       *sym.TokenInfo
	Writes    []sym.Write
	Returned  bool
	RetErr    bool // returned a non-nil error
	Status    int
	Reason    string
	Ghost     map[string]sym.Value
	Assumed   []string
	Effects   []string
}

// Steps is the extracted step relation.
type Steps struct {
	Paths      []*StepPath
	PolicyVars map[*smt.Term]bool
	Safety     []*sym.Obligation
	HarnessObs []*sym.Obligation
	Seconds    float64
	Interp     *sym.Interp
	Other      []*sym.State // paths that are neither step-end nor returned
}

// ExtractSteps explores harness (which must call Policy.sanitize once) with
// the token loop havocked and returns the step paths.
func (c *Ctx) ExtractSteps(in *sym.Interp, harness string, inv func(in *sym.Interp, st *sym.State)) (*Steps, error) {
	t0 := time.Now()
	sfn := in.FindFunc(sanitizeFn)
	if sfn == nil {
		return nil, fmt.Errorf("function %s not found", sanitizeFn)
	}
	if err := in.SetHavocLoop(sfn, "Tokenizer).Next"); err != nil {
		return nil, err
	}
	defer in.ClearHavocLoop()
	in.Cfg.OnLoopEntry = inv
	fn := in.FindFunc(harness)
	if fn == nil {
		return nil, fmt.Errorf("harness %s not found", harness)
	}
	in.Obligations = nil
	states, err := in.RunFrom(in.NewState(), fn, nil)
	if err != nil {
		return nil, err
	}
	res := &Steps{PolicyVars: map[*smt.Term]bool{}, Interp: in}
	for _, ob := range in.Obligations {
		if ob.Kind == "safety" {
			res.Safety = append(res.Safety, ob)
		} else {
			res.HarnessObs = append(res.HarnessObs, ob)
		}
	}
	in.Obligations = nil
	sort.Slice(states, func(i, j int) bool { return states[i].ID < states[j].ID })
	for _, st := range states {
		switch st.Status {
		case sym.StepEnd, sym.Finished:
		default:
			res.Other = append(res.Other, st)
			continue
		}
		if st.LoopPre == nil {
			res.Other = append(res.Other, st)
			continue
		}
		sp := &StepPath{ID: st.ID, PCList: st.PC, PC: st.PCTerm(), Pre: st.LoopPre, Post: st.LoopPost, Writes: st.Writes, Status: st.Status, Reason: st.Reason, Ghost: st.Ghost, Assumed: st.Assumed, Effects: st.Effects}
		if init, ok := st.Ghost["loopInit"].(map[string]sym.Value); ok {
			sp.Init = init
		}
		if len(st.Tokens) > 0 {
			sp.Tok = st.Tokens[len(st.Tokens)-1]
		}
		if st.Status == sym.Finished {
			sp.Returned = true
			if v, ok := st.Ghost["note:returned-error"].(*smt.Term); ok {
				if !v.IsConst() {
					return nil, fmt.Errorf("returned-error is symbolic on path %d", st.ID)
				}
				sp.RetErr = v.B
			}
		}
		res.Paths = append(res.Paths, sp)
	}
	res.Seconds = time.Since(t0).Seconds()
	return res, nil
}

// Describe renders a step path for evidence samples.
func (sp *StepPath) Describe() string {
	var sb strings.Builder
	if sp.Tok != nil {
		fmt.Fprintf(&sb, "tok=%s", sp.Tok.Kind)
		if sp.Tok.Kind == "Error" {
			fmt.Fprintf(&sb, "(%s)", sp.Tok.ErrIs)
		}
		if len(sp.Tok.Keys) > 0 {
			fmt.Fprintf(&sb, "[%d attrs]", len(sp.Tok.Keys))
		}
	}
	for _, w := range sp.Writes {
		s := w.S.String()
		if len(s) > 60 {
			s = s[:60] + "…"
		}
		if w.Failed {
			fmt.Fprintf(&sb, " write!FAIL(%s)", s)
		} else {
			fmt.Fprintf(&sb, " write(%s)", s)
		}
	}
	if sp.Returned {
		fmt.Fprintf(&sb, " return(err=%v)", sp.RetErr)
	} else {
		fmt.Fprintf(&sb, " continue")
	}
	return sb.String()
}

// term helpers for loop variables
func (sp *StepPath) PreT(name string) *smt.Term  { return sp.Pre[name].(*smt.Term) }
func (sp *StepPath) PostT(name string) *smt.Term { return sp.Post[name].(*smt.Term) }
func (sp *StepPath) PreStack(name string) *sym.SymSliceV {
	return sp.Pre[name].(*sym.SymSliceV)
}
func (sp *StepPath) PostStack(name string) *sym.SymSliceV {
	return sp.Post[name].(*sym.SymSliceV)
}
