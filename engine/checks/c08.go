package checks

import (
	"fmt"
	"os"
	"strconv"
	"strings"
	"sync"
	"time"

	"bmsym/smt"
)

// nestNames is the finite name domain of the unrolled (C08/C09) checks.
// `q"` stands for the names on which normaliseElementName is not the identity
// (strconv.QuoteToASCII escapes the quote, as it does backslashes, control
// characters and non-ASCII bytes).
var nestNames = []string{"a", "b", "c", "d", "script", "style", "br", "title", `q"`}

var voidElements = []string{"area", "base", "br", "col", "embed", "hr", "img", "input", "link", "meta", "source", "track", "wbr"}

// nestMon is the unrolled well-nestedness monitor over the input tokens and
// the written tokens.
type nestMon struct {
	WellNested *smt.Term   // input is a prefix of a well-nested document (every end tag closes the innermost open element)
	Closed     *smt.Term   // every element is closed at the end
	D          []*smt.Term // D[j]: open disallowed skip-content elements before step j
	InDepth    []*smt.Term // before step j; InDepth[k] = final
	OutBad     []*smt.Term // step j writes an end tag that does not close the innermost open output element
	OutDepth   []*smt.Term // before step j; OutDepth[k] = final
	OpenAt     func(i, j int) *smt.Term
	IsPush     []*smt.Term
}

func isVoid(n *smt.Term) *smt.Term { return oneOf(n, voidElements...) }

func buildNestMon(ps *PolicySyms, steps []*StepVars) *nestMon {
	k := len(steps)
	m := &nestMon{}
	inArr := smt.Var("mon.in0", smt.ArrIS)
	outArr := smt.Var("mon.out0", smt.ArrIS)
	inD, outD, D := smt.IntC(0), smt.IntC(0), smt.IntC(0)
	var wn []*smt.Term
	one := smt.IntC(1)
	for j := 0; j < k; j++ {
		sv := steps[j]
		m.D = append(m.D, D)
		m.InDepth = append(m.InDepth, inD)
		m.OutDepth = append(m.OutDepth, outD)
		n := sv.Data
		skipdis := smt.And(ps.InSkip(n), smt.Not(ps.Allowed(n)))
		push := smt.And(kindIs(sv.Kind, 2), smt.Not(isVoid(n)))
		pop := kindIs(sv.Kind, 3)
		m.IsPush = append(m.IsPush, push)
		// input side
		wn = append(wn, smt.Implies(pop, smt.And(smt.Lt(smt.IntC(0), inD), smt.Eq(smt.Select(inArr, smt.Sub(inD, one)), n), smt.Not(isVoid(n)))))
		nInArr := smt.Var(fmt.Sprintf("mon.in%d", j+1), smt.ArrIS)
		nInD := smt.Var(fmt.Sprintf("mon.ind%d", j+1), smt.Int)
		nD := smt.Var(fmt.Sprintf("mon.D%d", j+1), smt.Int)
		wn = append(wn,
			smt.Eq(nInArr, arrIte(push, smt.Store(inArr, inD, n), inArr)),
			smt.Eq(nInD, smt.Ite(push, smt.Add(inD, one), smt.Ite(pop, smt.Sub(inD, one), inD))),
			smt.Eq(nD, smt.Ite(smt.And(push, skipdis), smt.Add(D, one), smt.Ite(smt.And(pop, skipdis), smt.Sub(D, one), D))))
		// output side
		opush := smt.And(sv.Written, push)
		opop := smt.And(sv.Written, pop)
		m.OutBad = append(m.OutBad, smt.And(opop, smt.Or(smt.Le(outD, smt.IntC(0)), smt.Not(smt.Eq(smt.Select(outArr, smt.Sub(outD, one)), n)))))
		nOutArr := smt.Var(fmt.Sprintf("mon.out%d", j+1), smt.ArrIS)
		nOutD := smt.Var(fmt.Sprintf("mon.outd%d", j+1), smt.Int)
		wn = append(wn,
			smt.Eq(nOutArr, arrIte(opush, smt.Store(outArr, outD, n), outArr)),
			smt.Eq(nOutD, smt.Ite(opush, smt.Add(outD, one), smt.Ite(opop, smt.Sub(outD, one), outD))))
		inArr, inD, D, outArr, outD = nInArr, nInD, nD, nOutArr, nOutD
	}
	m.InDepth = append(m.InDepth, inD)
	m.OutDepth = append(m.OutDepth, outD)
	m.D = append(m.D, D)
	m.Closed = smt.Eq(inD, smt.IntC(0))
	m.WellNested = smt.And(wn...)
	// element pushed at step i is still open before step j (i < j)
	m.OpenAt = func(i, j int) *smt.Term {
		cs := []*smt.Term{m.IsPush[i]}
		for x := i + 1; x <= j; x++ {
			cs = append(cs, smt.Lt(m.InDepth[i], m.InDepth[x]))
		}
		return smt.And(cs...)
	}
	return m
}

func arrIte(c, a, b *smt.Term) *smt.Term {
	if c.IsTrue() {
		return a
	}
	if c.IsFalse() {
		return b
	}
	return smt.App("ite", smt.ArrIS, c, a, b)
}

func nestTimeouts(c *Ctx, quickK, thoroughK int) (time.Duration, int, int) {
	if v, err := strconv.Atoi(os.Getenv("BMSYM_MAXK")); err == nil {
		return 120 * time.Second, v, 1
	}
	if c.Tier == "thorough" {
		return 1500 * time.Second, thoroughK, 1
	}
	return 120 * time.Second, quickK, 1
}

// nativeNesting replays the stack-balance check on token lists.
func nativeBalanced(toks []nativeTok) (bool, string) {
	var st []string
	isV := func(n string) bool {
		for _, v := range voidElements {
			if v == n {
				return true
			}
		}
		return false
	}
	for _, t := range toks {
		switch t.Type {
		case "StartTag":
			if !isV(t.Data) {
				st = append(st, t.Data)
			}
		case "EndTag":
			if len(st) == 0 || st[len(st)-1] != t.Data {
				return false, "stray or mismatched end tag </" + t.Data + ">"
			}
			st = st[:len(st)-1]
		}
	}
	if len(st) > 0 {
		return false, "unclosed element <" + st[len(st)-1] + ">"
	}
	return true, ""
}

// C08: content of disallowed invisible-content elements is removed.
func runC08(c *Ctx, ev *Evidence) ([]Violation, error) {
	timeout, maxK, attrs := nestTimeouts(c, 5, 7)
	lr, err := c.loopSetup(ev, "HarnessLoop_step", attrs, nestNames...)
	if err != nil {
		return nil, err
	}
	defer lr.In.Close()
	ev.Bound("tokens_k", maxK)
	ev.Bound("history", fmt.Sprintf("every token sequence of length <= %d from the initial loop state, every name assignment, every policy of the table shape", maxK))
	ev.Assume("input is well nested for the monitor: every end tag closes the innermost open non-void element and all elements are closed at the end; the thirteen void elements of the HTML standard never have end tags",
		"the skip-content set contains no void element and not frame: a void element has no content and never gets an end tag, so once one is in the skip set everything after it is dropped (<hr>x with SkipElementsContent(\"hr\") gives the empty string; the default set's frame behaves the same) - recorded as an observation, outside the statement",
		"for the 'outside text is kept' direction no tag is named script/style (their bodies are C05's subject)")
	ev.Outside("sequences longer than the bound; the inserted strip space inside a skipped region is not counted as nested content")
	marker := "zqinsideqz"
	perK := make([][]Violation, maxK+1)
	errs := make([]error, maxK+1)
	var wg sync.WaitGroup
	for k := 1; k <= maxK; k++ {
		wg.Add(1)
		go func(k int) {
			defer wg.Done()
			perK[k], errs[k] = c08AtK(c, ev, lr, k, timeout, marker)
		}(k)
	}
	wg.Wait()
	for k := 1; k <= maxK; k++ {
		if errs[k] != nil {
			return nil, errs[k]
		}
		if len(perK[k]) > 0 {
			return perK[k], nil
		}
	}
	return nil, nil
}

func c08AtK(c *Ctx, ev *Evidence, lr *LoopRun, k int, timeout time.Duration, marker string) ([]Violation, error) {
	ps := lr.PS
	var viols []Violation
	{
		steps := lr.T.Unroll(k, lr.T.InitState())
		mon := buildNestMon(ps, steps)
		var as []*smt.Term
		for _, sv := range steps {
			as = append(as, sv.Formula, smt.Not(sv.Failed), smt.Not(sv.Returned), smt.Not(kindIs(sv.Kind, 0)),
				smt.Implies(isTag(sv.Kind), smt.Not(smt.Eq(sv.Data, smt.StrC("frame")))))
		}
		as = append(as, ps.WellFormed(), smt.Not(ps.AllowUnsafe), mon.WellNested, skipSetNotVoid(ps), a1RawText(steps))
		var vs []*smt.Term
		{
			// A violation is looked for at the last step only: the output up to a
			// token does not depend on later tokens, and every prefix of a
			// well-nested document can be completed, so prefixes suffice.
			j, sv := k-1, steps[k-1]
			vs = append(vs, smt.And(smt.Lt(smt.IntC(0), mon.D[j]), smt.Or(sv.Written, sv.RawWrite)))
			noSS := smt.True
			for _, s2 := range steps {
				noSS = smt.And(noSS, smt.Implies(isTag(s2.Kind), smt.Not(oneOf(s2.Data, "script", "style"))))
			}
			vs = append(vs, smt.And(smt.Eq(mon.D[j], smt.IntC(0)), kindIs(sv.Kind, 1), smt.Not(sv.Written), noSS))
		}
		as = append(as, smt.Or(vs...))
		// text tokens carry a marker so that the native oracle can find them
		for _, sv := range steps {
			as = append(as, smt.Implies(smt.Or(kindIs(sv.Kind, 1), kindIs(sv.Kind, 5)), smt.Eq(sv.Data, smt.StrC(fmt.Sprintf("%s%d", marker, sv.J)))))
			as = append(as, smt.Not(kindIs(sv.Kind, 6)))
		}
		var blocks []*smt.Term
		decided := false
		for mi := 0; mi < 8; mi++ {
			vals := lr.witnessValues(steps, nil)
			for j := range steps {
				vals = append(vals, mon.D[j])
			}
			name := fmt.Sprintf("C08-unroll-k%d-m%d", k, mi)
			r := lr.solve(name, append(append([]*smt.Term{}, as...), blocks...), vals, timeout)
			ev.Query(name, r)
			ev.AddTransitions(len(lr.T.Paths) * k)
			ev.Sample(map[string]interface{}{"query": name + ": well-nested sequence where something inside a disallowed skip-content element is written, or text outside is dropped", "verdict": r.Status.String(), "solver": r.Solver, "seconds": r.Seconds})
			if r.Status == smt.Unknown {
				ev.Inconclusive(fmt.Sprintf("C08 unrolling k=%d undecided: %s", k, r.Note))
				decided = true
				break
			}
			if r.Status == smt.Unsat {
				decided = true
				break
			}
			nv := len(vals) - k
			w := lr.decodeWitness(steps, r.Values[:nv])
			var Dv []int
			for j := 0; j < k; j++ {
				Dv = append(Dv, int(r.Values[nv+j].I))
			}
			input, ok := w.html()
			blockSel := func() {
				var ds []*smt.Term
				for j, s := range steps {
					ds = append(ds, smt.Not(smt.Eq(s.Sel, smt.IntC(int64(w.Tokens[j].Sel)))))
				}
				blocks = append(blocks, smt.Or(ds...))
			}
			if !ok {
				c.Log("C08: witness not renderable: %s", w.describe())
				blockSel()
				continue
			}
			req := NativeReq{"op": "sanitize", "policy": w.policyDSL(), "input": input}
			res, nerr := RunNative(c.Repo, c.VerifDir, []NativeReq{req}, "")
			if nerr != nil {
				return nil, nerr
			}
			if !w.tokensMatch(decodeTokens(res[0]["in_tokens"])) {
				c.Log("C08: witness input not tokenised as modelled: %s -> %v", w.describe(), res[0]["in_tokens"])
				blockSel()
				continue
			}
			out, _ := res[0]["output"].(string)
			bad := ""
			for j, t := range w.Tokens {
				if t.Kind == 5 && Dv[j] > 0 && strings.Contains(out, t.Data) {
					bad = fmt.Sprintf("comment %q nested inside a disallowed skip-content element appears in the output", t.Data)
				}
				if t.Kind == 1 {
					has := strings.Contains(out, t.Data)
					if Dv[j] > 0 && has {
						bad = fmt.Sprintf("text %q nested inside a disallowed skip-content element appears in the output", t.Data)
					}
					if Dv[j] == 0 && !has {
						bad = fmt.Sprintf("text %q outside any skipped element is missing from the output", t.Data)
					}
				}
				if Dv[j] > 0 && t.Kind >= 2 && t.Kind <= 4 {
					for _, ot := range decodeTokens(res[0]["out_tokens"]) {
						if ot.Data == t.Data && ot.Type == tokenKindName(t.Kind) && countTag(w.Tokens, t) == 1 {
							bad = fmt.Sprintf("tag %s nested inside a disallowed skip-content element appears in the output", t.Data)
						}
					}
				}
			}
			ev.Sample(map[string]interface{}{"query": "C08-witness", "witness": w.describe(), "output": out, "violates_natively": bad != ""})
			if bad == "" {
				c.Log("C08: model did not reproduce: %s -> %q", w.describe(), out)
				blockSel()
				continue
			}
			ev.AddReplayed(1)
			viols = append(viols, Violation{Sig: "site=skip-content " + shapeOf(w), Detail: fmt.Sprintf("%s; output=%q; %s", w.describe(), out, bad), Replay: []NativeReq{req}})
			return viols, nil
		}
		if !decided {
			ev.Inconclusive(fmt.Sprintf("C08 unrolling k=%d: solver models kept coming but none reproduced natively (model/encoding mismatch)", k))
		}
	}
	return viols, nil
}

// skipSetNotVoid: void elements (and frame) have no content, so a policy that
// puts one in the skip-content set is outside the statement.
func skipSetNotVoid(ps *PolicySyms) *smt.Term {
	var cs []*smt.Term
	for _, s := range ps.Skip {
		cs = append(cs, smt.Not(isVoid(s)), smt.Not(smt.Eq(s, smt.StrC("frame"))))
	}
	return smt.And(cs...)
}

func countTag(ts []seqToken, t seqToken) int {
	n := 0
	for _, x := range ts {
		if x.Kind == t.Kind && x.Data == t.Data {
			n++
		}
	}
	return n
}
