package checks

import (
	"fmt"
	"go/types"
	"os"
	"regexp"
	"sort"
	"strconv"
	"strings"
	"sync"
	"time"

	"bmsym/smt"
	"bmsym/sym"

	"golang.org/x/tools/go/ssa"
)

const cssPkg = "github.com/microcosm-cc/bluemonday/css"

// hostileClasses(v): one formula per class of fragment C18 forbids. A url()
// is only acceptable as a plain http/https reference; javascript: and data:
// count when they start a reference (not when they continue the character run
// of a plain http(s) URL such as url(http:javascript:)).
func hostileClasses(v *smt.Term) map[string]*smt.Term {
	m := map[string]*smt.Term{}
	for _, f := range []string{"<", ">", "\\", "@", "expression("} {
		m["contains "+f] = smt.Contains(v, smt.StrC(f))
	}
	urlChar := `[a-z0-9./_:\\]`
	m["javascript:/data: reference"] = smt.Translate(`(^|[^a-z0-9./_:\\])(javascript|data):`).Match(v)
	_ = urlChar
	plain := smt.ReConcat(smt.ReUnion(smt.ReLit("http:"), smt.ReLit("https:")), smt.SigmaStar)
	quote := smt.ReUnion(smt.ReLit("\""), smt.ReLit("'"))
	// after "url(": a quote followed by something that is not a plain reference,
	// or no quote and not a plain reference
	after := smt.ReUnion(smt.ReConcat(quote, smt.ReComp(plain)), smt.ReComp(smt.ReUnion(smt.ReConcat(quote, smt.SigmaStar), plain)))
	bad := smt.ReConcat(smt.SigmaStar, smt.ReLit("url("), after)
	m["url() that is not a plain http/https reference"] = smt.InRe(v, bad)
	return m
}

// crudeClasses: plain substring versions of the two context-sensitive
// classes (stronger: any occurrence counts). Used where the value passes
// through regexp.ReplaceAll, whose model only preserves substrings.
func crudeClasses(v *smt.Term) map[string]*smt.Term {
	m := map[string]*smt.Term{}
	for _, f := range []string{"<", ">", "\\", "@", "expression(", "javascript:", "data:", "url("} {
		m["contains "+f] = smt.Contains(v, smt.StrC(f))
	}
	return m
}

// crudeHandlers are judged against the substring classes: the two handlers
// that strip function names with ReplaceAll and the leaf handlers they hand
// the remainder to.
var crudeHandlers = map[string]bool{"TransformHandler": true, "FilterHandler": true, "LengthHandler": true, "ColorHandler": true}

func hostileTerm(v *smt.Term) *smt.Term {
	var ds []*smt.Term
	for _, t := range hostileClasses(v) {
		ds = append(ds, t)
	}
	return smt.Or(ds...)
}

var reJSData = regexp.MustCompile(`(^|[^a-z0-9./_:\\])(javascript|data):`)

func hostileNative(v string) string {
	for _, f := range []string{"<", ">", "\\", "@", "expression("} {
		if strings.Contains(v, f) {
			return "contains " + f
		}
	}
	if reJSData.MatchString(v) {
		return "contains a javascript:/data: reference"
	}
	if urlBadNative(v) {
		return "contains a url() that is not a plain http/https reference"
	}
	return ""
}

func urlBadNative(v string) bool {
	rest := v
	for {
		i := strings.Index(rest, "url(")
		if i < 0 {
			return false
		}
		r := rest[i+4:]
		if len(r) > 0 && (r[0] == '"' || r[0] == '\'') {
			r = r[1:]
		}
		if !strings.HasPrefix(r, "http:") && !strings.HasPrefix(r, "https:") {
			return true
		}
		rest = rest[i+4:]
	}
}

type handlerInfo struct {
	Name  string // function name
	Fn    *ssa.Function
	Props []string
}

// cssHandlers reads the real defaultStyleHandlers map from the heap left by
// the package initialiser.
func cssHandlers(in *sym.Interp) ([]*handlerInfo, error) {
	v, err := in.GlobalValue(cssPkg, "defaultStyleHandlers")
	if err != nil {
		return nil, err
	}
	m, ok := v.(sym.MapV)
	if !ok || m.Obj == 0 {
		return nil, fmt.Errorf("defaultStyleHandlers is not an initialised map")
	}
	md := in.BaseHeap[m.Obj].(*sym.MapData)
	byFn := map[*ssa.Function]*handlerInfo{}
	var out []*handlerInfo
	for _, e := range md.Entries {
		k := e.K.(*smt.Term)
		fv, ok := e.V.(*sym.FuncV)
		if !ok || fv == nil || fv.Fn == nil {
			return nil, fmt.Errorf("defaultStyleHandlers[%q] is not a function", k.S)
		}
		hi := byFn[fv.Fn]
		if hi == nil {
			hi = &handlerInfo{Name: fv.Fn.Name(), Fn: fv.Fn}
			byFn[fv.Fn] = hi
			out = append(out, hi)
		}
		hi.Props = append(hi.Props, k.S)
	}
	sort.Slice(out, func(i, j int) bool { return out[i].Name < out[j].Name })
	return out, nil
}

// C18: default CSS value handlers accept only inert values.
func runC18(c *Ctx, ev *Evidence) ([]Violation, error) {
	sym.LowerFragmentAxioms = true
	defer func() { sym.LowerFragmentAxioms = false }()
	timeout, grace := 20*time.Second, 1*time.Second
	K := 2
	if c.Tier == "thorough" {
		timeout, grace, K = 120*time.Second, 5*time.Second, 3
	}
	if v, err := strconv.Atoi(os.Getenv("BMSYM_K")); err == nil {
		K = v
	}
	base, err := c.NewInterp(sym.Config{})
	if err != nil {
		return nil, err
	}
	handlers, err := cssHandlers(base)
	if err != nil {
		base.Close()
		return nil, err
	}
	// every function of the css package with the handler signature
	isHandler := map[string]bool{}
	for _, m := range base.Pkgs[cssPkg].Members {
		if f, ok := m.(*ssa.Function); ok && strings.HasSuffix(f.Name(), "Handler") && f.Signature.Params().Len() == 1 && f.Signature.Results().Len() == 1 {
			isHandler[f.String()] = true
		}
	}
	base.Close()
	ev.Bound("split_parts_max", K)
	ev.Bound("split_parts_max_positional", fmt.Sprintf("%d for handlers that address split parts by constant index (found from the SSA: a constant-index access to a []string)", K+2))
	ev.Bound("handlers", len(handlers))
	ev.Bound("values", "all 7-bit ASCII strings whose comma/space/slash splits have at most K parts per level; longer values are cut and counted")
	ev.Assume("modular reasoning over the handler call graph: inside a handler, calls of other handlers are opaque predicates carrying the lemma 'accepts t => t has no hostile fragment', which is what this check establishes for that handler",
		"regexp.ReplaceAll(v, \"\") with the four unanchored function-name patterns neither deletes nor creates a hostile fragment",
		"A4: regexp/syntax semantics as translated; values are lower-cased and escape-decoded by the caller (C10)")
	ev.Outside("membership in the property's value space beyond inertness (no per-property grammar oracle)")
	rcOK, err := c.proveRecursiveCheckSummary(ev, timeout)
	if err != nil {
		c.Log("recursiveCheck summary not applicable: %v", err)
	}
	if !rcOK {
		c.Log("recursiveCheck summary not established; composite handlers are executed through the real recursion")
	}
	enumOK, err := c.proveEnumSummary(ev, timeout)
	if err != nil {
		c.Log("enum summary not applicable: %v", err)
	}
	if !enumOK {
		c.Log("enum summary not established; enum handlers are executed through the real split")
	}
	var dist map[string]bool
	{
		din, err := c.NewInterp(sym.Config{})
		if err == nil {
			dist = c.proveDistribution(ev, din, timeout)
			din.Close()
			n := 0
			for _, v := range dist {
				if v {
					n++
				}
			}
			ev.Bound("distribution_lemmas", fmt.Sprintf("%d of %d proved (class x separator / join position, arbitrary strings)", n, len(dist)))
		}
	}
	vocab := c18Vocabulary(c, handlers)
	var mu sync.Mutex
	var viols []Violation
	seen := map[string]bool{}
	var wg sync.WaitGroup
	sem := make(chan struct{}, 4)
	totalPaths, totalAccept := 0, 0
	only := os.Getenv("BMSYM_ONLY")
	for _, h := range handlers {
		if only != "" && !strings.Contains(","+only+",", ","+h.Name+",") {
			continue
		}
		if c18ThoroughOnly[h.Name] && c.Tier != "thorough" && only == "" {
			ev.Outside(h.Name + " (" + strings.Join(h.Props, ",") + "): checked in the thorough tier only (its queries need long solver time)")
			continue
		}
		if c18NotDecided[h.Name] && only == "" {
			ev.Outside(h.Name + " (" + strings.Join(h.Props, ",") + "): not claimed - its accepting paths go through regexp.ReplaceAll and a comma split of the remainder, and the solvers do not decide them within the time limit")
			continue
		}
		wg.Add(1)
		go func(h *handlerInfo) {
			defer wg.Done()
			sem <- struct{}{}
			defer func() { <-sem }()
			t0 := time.Now()
			defer func() { c.Log("C18 %s done in %.1fs", h.Name, time.Since(t0).Seconds()) }()
			intercept := map[string]sym.Model{}
			for name := range isHandler {
				if name == h.Fn.String() {
					continue
				}
				nm := name
				intercept[nm] = func(in *sym.Interp, st *sym.State, cc *ssa.CallCommon, args []sym.Value) []sym.Alt {
					short := nm[strings.LastIndex(nm, ".")+1:]
					return []sym.Alt{{Ret: smt.UF("J."+short, smt.Bool, args[0].(*smt.Term))}}
				}
			}
			var in *sym.Interp
			var states []*sym.State
			v := smt.Var("v", smt.String)
			for attempt := 0; attempt < 2; attempt++ {
				k := K
				if indexesParts(h.Fn) {
					k = K + 2 // positional handlers: one part more than any index the code mentions
				}
				hcfg := sym.Config{NoFeasCheck: true, SplitMax: k, Intercept: intercept, Workers: 4, MaxStates: 60000, UnwindSym: 12}
				hcfg.Summaries = map[string]func(in *sym.Interp, st *sym.State, args []sym.Value) sym.Value{}
				if rcOK {
					hcfg.Summaries[cssPkg+".recursiveCheck"] = recursiveCheckSummary
				}
				if enumOK && attempt == 0 {
					hcfg.Summaries[cssPkg+".splitValues"] = splitValuesSummary
					hcfg.Summaries[cssPkg+".in"] = inSummary
				}
				var err error
				in, err = c.NewInterp(hcfg)
				if err != nil {
					ev.Inconclusive(h.Name + ": " + err.Error())
					return
				}
				states, err = in.RunFrom(in.NewState(), h.Fn, []sym.Value{v})
				if err != nil {
					in.Close()
					ev.Inconclusive(h.Name + ": exploration: " + err.Error())
					return
				}
				retry := false
				for _, st := range states {
					if st.Status == sym.Unsupported && attempt == 0 {
						retry = true // the summarised split result flowed somewhere else: use the real code
					}
				}
				if !retry {
					break
				}
				in.Close()
			}
			defer in.Close()
			ev.Func(cssPkg + "." + h.Name)
			c.Log("C18 %s: %d paths explored in %.1fs", h.Name, len(states), time.Since(t0).Seconds())
			nAcc := 0
			for _, st := range states {
				switch st.Status {
				case sym.Unsupported:
					ev.Inconclusive(h.Name + ": " + st.Reason)
					return
				case sym.Cut:
					for _, a := range st.Assumed {
						if !strings.Contains(a, "uninterpreted") {
							ev.Outside(fmt.Sprintf("%s: paths cut by bound '%s'", h.Name, a))
						}
					}
					continue
				case sym.Panicked:
					continue // C14's subject
				case sym.Finished:
				default:
					continue
				}
				ret, ok := st.Ret.(*smt.Term)
				if !ok {
					continue
				}
				acc := append(append([]*smt.Term{}, st.PC...), ret)
				if smt.And(acc...).IsFalse() {
					continue
				}
				nAcc++
				// lemma instances for opaque sub-handler calls that returned true
				var lemmas []*smt.Term
				smt.Walk(smt.And(acc...), func(x *smt.Term) {
					if x.Op == "uf" && strings.HasPrefix(x.Name, "J.") {
						lemmas = append(lemmas, smt.Implies(x, smt.Not(hostileTerm(x.Args[0]))))
						if crudeHandlers[strings.TrimPrefix(x.Name, "J.")] {
							for _, ct := range crudeClasses(x.Args[0]) {
								lemmas = append(lemmas, smt.Implies(x, smt.Not(ct)))
							}
						}
					}
				})
				var r smt.Result
				var fulls []*smt.Term
				var satFull *smt.Term
				name := fmt.Sprintf("C18-%s-p%d", h.Name, st.ID)
				{
					classes := hostileClasses(v)
					if crudeHandlers[h.Name] {
						classes = crudeClasses(v)
					}
					var cn []string
					for k := range classes {
						cn = append(cn, k)
					}
					sort.Strings(cn)
					results := make([]smt.Result, len(cn))
					fulls = make([]*smt.Term, len(cn))
					var cwg sync.WaitGroup
					// equations x = p1·sep·p2… introduced by the split models: used to
					// expand the hostile predicate (and the lemma instances) over the parts
					eqs := map[*smt.Term]*smt.Term{}
					if flat := smt.And(acc...); flat.Op == "and" {
						for _, cj := range flat.Args {
							if cj.Op == "=" {
								for i := 0; i < 2; i++ {
									if cj.Args[i].Op == "var" && cj.Args[1-i].Op == "str.++" {
										eqs[cj.Args[i]] = cj.Args[1-i]
									}
								}
								// a split into one part: x = p with p the fresh part
								a0, a1 := cj.Args[0], cj.Args[1]
								if a0.Op == "var" && a1.Op == "var" {
									f0, f1 := strings.HasPrefix(a0.Name, "sp"), strings.HasPrefix(a1.Name, "sp")
									switch {
									case f1 && (!f0 || a1.ID() > a0.ID()):
										eqs[a0] = a1
									case f0:
										eqs[a1] = a0
									}
								}
							}
						}
					}
					expand := func(t *smt.Term) *smt.Term {
						for d := 0; d < 4 && len(eqs) > 0; d++ {
							n := smt.Subst(t, eqs)
							if n == t {
								break
							}
							t = n
						}
						return t
					}
					var xl []*smt.Term
					for _, l := range lemmas {
						xl = append(xl, expand(l))
					}
					for ci, k := range cn {
						if refuteByDistribution(in, dist, k, v, append(append([]*smt.Term{}, acc...), hostileClassRaw(k, v)), eqs) {
							results[ci] = smt.Result{Status: smt.Unsat, Solver: "distribution-lemmas"}
							ev.Query(name+"-"+k+"-distribution", results[ci])
							continue
						}
						as := append(append([]*smt.Term{}, acc...), expand(classes[k]))
						as = append(as, xl...)
						as = sym.ProjectDecomps(as)
						full := smt.And(as...)
						if full.IsFalse() {
							results[ci] = smt.Result{Status: smt.Unsat, Solver: "syntactic"}
							continue
						}
						fulls[ci] = full
						cwg.Add(1)
						go func(ci int, k string, full *smt.Term) {
							defer cwg.Done()
							q := &smt.Query{Name: name + "-" + k, Asserts: append([]*smt.Term{full}, sym.SideConditions([]*smt.Term{full})...), Values: []*smt.Term{v}, Timeout: timeout, Both: true, Grace: grace}
							in.WithWorker(func(w *smt.Worker) { results[ci] = w.Check(q) })
							if results[ci].Status == smt.Unknown {
								// one retry with a longer limit before the path is given up as undecided
								q.Timeout = 4 * timeout
								in.WithWorker(func(w *smt.Worker) { results[ci] = w.Check(q) })
							}
							ev.Query(name+"-"+k, results[ci])
							ev.AddTransitions(1)
						}(ci, k, full)
					}
					cwg.Wait()
					r = smt.Result{Status: smt.Unsat}
					for ci, x := range results {
						if x.Status == smt.Sat {
							r = x
							satFull = fulls[ci]
							break
						}
						if x.Status == smt.Unknown {
							r = x
						}
					}
				}
				switch r.Status {
				case smt.Unknown:
					ev.Inconclusive(fmt.Sprintf("%s: accepting path %d undecided (%s)", h.Name, st.ID, r.Note))
				case smt.Sat:
					val := r.Values[0].S
					mu.Lock()
					if seen[h.Name] {
						mu.Unlock()
						continue
					}
					mu.Unlock()
					req := NativeReq{"op": "csshandler", "prop": h.Props[0], "value": val}
					nres, nerr := RunNative(c.Repo, c.VerifDir, []NativeReq{req}, "")
					if nerr != nil {
						ev.Inconclusive(h.Name + ": native run: " + nerr.Error())
						continue
					}
					accepted, _ := nres[0]["accept"].(bool)
					why := hostileNative(val)
					if !(accepted && why != "") && satFull != nil {
						// the model may rest on an opaque sub-handler accepting a string it
						// really rejects: search again with every accepted sub-handler argument
						// restricted to natively confirmed values
						if v2, ok := c18Refine(c, in, vocab, satFull, v, name, timeout); ok {
							req = NativeReq{"op": "csshandler", "prop": h.Props[0], "value": v2}
							if nres2, e2 := RunNative(c.Repo, c.VerifDir, []NativeReq{req}, ""); e2 == nil {
								if a2, _ := nres2[0]["accept"].(bool); a2 && hostileNative(v2) != "" {
									val, accepted, why = v2, true, hostileNative(v2)
								}
							}
						}
					}
					ev.Sample(map[string]interface{}{"query": name, "handler": h.Name, "value": val, "native_accepts": accepted, "hostile": why})
					mu.Lock()
					if accepted && why != "" {
						ev.AddReplayed(1)
						if !seen[h.Name] {
							seen[h.Name] = true
							viols = append(viols, Violation{Sig: "handler=" + h.Name, Detail: fmt.Sprintf("%s (%s) accepts %q which %s", h.Name, strings.Join(h.Props, ","), val, why), Replay: []NativeReq{req}})
						}
					} else {
						ev.Inconclusive(fmt.Sprintf("%s: model %q did not reproduce natively (accepts=%v, hostile=%q); it may rest on an opaque sub-handler", h.Name, val, accepted, why))
					}
					mu.Unlock()
				}
			}
			mu.Lock()
			totalPaths += len(states)
			totalAccept += nAcc
			mu.Unlock()
			ev.AddStates(len(states))
			if nAcc == 0 && h.Name != "BaseHandler" {
				ev.Inconclusive(h.Name + ": no accepting path (vacuous)")
			}
		}(h)
	}
	wg.Wait()
	ev.Sample(map[string]interface{}{"query": "C18 summary", "handlers": len(handlers), "paths": totalPaths, "accepting_paths": totalAccept})
	// unknown property -> rejecting handler
	{
		in, err := c.NewInterp(sym.Config{NoFeasCheck: true})
		if err != nil {
			return nil, err
		}
		gd := in.FindFunc(cssPkg + ".GetDefaultHandler")
		if gd == nil {
			ev.Inconclusive("css.GetDefaultHandler not found")
		} else {
			name := smt.Var("prop", smt.String)
			var known []*smt.Term
			for _, h := range handlers {
				for _, p := range h.Props {
					known = append(known, smt.Not(smt.Eq(name, smt.StrC(p))))
				}
			}
			st0 := in.NewState()
			st0.PC = append(st0.PC, known...)
			states, err := in.RunFrom(st0, gd, []sym.Value{name})
			if err != nil {
				ev.Inconclusive("GetDefaultHandler: " + err.Error())
			}
			for _, st := range states {
				if st.Status != sym.Finished {
					continue
				}
				if smt.And(st.PC...).IsFalse() {
					continue
				}
				fv, _ := st.Ret.(*sym.FuncV)
				if fv == nil || fv.Fn == nil || fv.Fn.Name() != "BaseHandler" {
					var r smt.Result
					full := smt.And(st.PC...)
					in.WithWorker(func(w *smt.Worker) {
						r = w.Check(&smt.Query{Name: "C18-unknown-prop", Asserts: append([]*smt.Term{full}, sym.SideConditions([]*smt.Term{full})...), Values: []*smt.Term{name}, Timeout: timeout})
					})
					ev.Query("C18-unknown-prop", r)
					if r.Status == smt.Sat {
						viols = append(viols, Violation{Sig: "site=GetDefaultHandler", Detail: fmt.Sprintf("unknown property %q does not get the rejecting handler", r.Values[0].S)})
					}
				}
			}
			// BaseHandler rejects everything
			bh := in.FindFunc(cssPkg + ".BaseHandler")
			if bh != nil {
				sts, _ := in.RunFrom(in.NewState(), bh, []sym.Value{smt.Var("v", smt.String)})
				for _, st := range sts {
					if t, ok := st.Ret.(*smt.Term); ok && !t.IsFalse() {
						viols = append(viols, Violation{Sig: "site=BaseHandler", Detail: "BaseHandler may accept a value"})
					}
				}
				ev.AddStates(len(sts))
			}
		}
		in.Close()
	}
	return viols, nil
}

// recursiveCheckSummary is the functional meaning of css.recursiveCheck: some
// segmentation of value into consecutive groups such that each group, joined
// with single spaces, is accepted by one of funcs. Built as a term by dynamic
// programming over the (concrete) number of parts; the predicates are the
// opaque sub-handler symbols.
func recursiveCheckSummary(in *sym.Interp, st *sym.State, args []sym.Value) sym.Value {
	parts := sym.SliceElems(st, args[0])
	funcs := sym.SliceElems(st, args[1])
	n := len(parts)
	rc := make([]*smt.Term, n+1)
	rc[n] = smt.False // empty remainder is never checked (the caller tests len == 0 itself)
	for i := n - 1; i >= 0; i-- {
		var alts []*smt.Term
		for j := i; j < n; j++ {
			var cat []*smt.Term
			for k := i; k <= j; k++ {
				if k > i {
					cat = append(cat, smt.StrC(" "))
				}
				cat = append(cat, parts[k].(*smt.Term))
			}
			tmp := smt.Concat(cat...)
			var fs []*smt.Term
			for _, f := range funcs {
				fv := f.(*sym.FuncV)
				fs = append(fs, opaqueHandler(fv, tmp))
			}
			tail := smt.True
			if j < n-1 {
				tail = rc[j+1]
			}
			alts = append(alts, smt.And(smt.Or(fs...), tail))
		}
		rc[i] = smt.Or(alts...)
	}
	if n == 0 {
		return smt.False
	}
	return rc[0]
}

func opaqueHandler(fv *sym.FuncV, arg *smt.Term) *smt.Term {
	if fv.Special == "pred" {
		return smt.UF("pred."+fv.Tag, smt.Bool, arg)
	}
	return smt.UF("J."+fv.Fn.Name(), smt.Bool, arg)
}

// proveRecursiveCheckSummary validates the summary on the real body for up
// to 3 parts and 2 opaque predicates.
func (c *Ctx) proveRecursiveCheckSummary(ev *Evidence, timeout time.Duration) (bool, error) {
	in, err := c.NewInterp(sym.Config{NoFeasCheck: true, MaxStates: 50000})
	if err != nil {
		return false, err
	}
	defer in.Close()
	fn := in.FindFunc(cssPkg + ".recursiveCheck")
	if fn == nil {
		return false, nil
	}
	for n := 1; n <= 3; n++ {
		for f := 1; f <= 2; f++ {
			st := in.NewState()
			var parts, funcs []sym.Value
			for i := 0; i < n; i++ {
				parts = append(parts, smt.Var(fmt.Sprintf("rc.p%d", i), smt.String))
			}
			for i := 0; i < f; i++ {
				funcs = append(funcs, &sym.FuncV{Special: "pred", Tag: fmt.Sprintf("rc.f%d", i)})
			}
			pv := in.NewSliceValue(st, parts)
			fv := in.NewSliceValue(st, funcs)
			spec := recursiveCheckSummary(in, st, []sym.Value{pv, fv}).(*smt.Term)
			states, err := in.RunFrom(st, fn, []sym.Value{pv, fv})
			if err != nil {
				return false, err
			}
			for _, s := range states {
				if s.Status != sym.Finished {
					return false, fmt.Errorf("recursiveCheck path ended with %s %s", StatusName(s.Status), s.Reason)
				}
				ret, ok := s.Ret.(*smt.Term)
				if !ok {
					return false, fmt.Errorf("recursiveCheck returns a non-scalar")
				}
				full := smt.And(append(append([]*smt.Term{}, s.PC...), smt.Not(smt.Eq(ret, spec)))...)
				if full.IsFalse() {
					continue
				}
				var r smt.Result
				in.WithWorker(func(w *smt.Worker) {
					r = w.Check(&smt.Query{Name: "C18-lemma-recursiveCheck", Asserts: append([]*smt.Term{full}, sym.SideConditions([]*smt.Term{full})...), Timeout: timeout, Both: true, Grace: 300 * time.Millisecond})
				})
				ev.Query(fmt.Sprintf("C18-lemma-recursiveCheck-n%d-f%d-p%d", n, f, s.ID), r)
				ev.AddTransitions(1)
				if r.Status != smt.Unsat {
					return false, nil
				}
			}
			ev.AddStates(len(states))
		}
	}
	ev.Func(cssPkg + ".recursiveCheck [proven equal to its segmentation meaning for <=3 parts and <=2 predicates, then summarised]")
	return true, nil
}

// ---- summaries for the enum idiom in(splitValues(v), consts) -----------------

func enumLanguage(consts []string) *smt.Term {
	var alts []*smt.Term
	for _, c := range consts {
		if strings.ToLower(c) != c || strings.TrimSpace(c) != c || strings.Contains(c, ",") {
			continue // can never equal a trimmed, lower-cased, comma-free part
		}
		alts = append(alts, smt.ReCI(c))
	}
	ws := smt.ReStar(smt.ReUnion(smt.ReRange(9, 13), smt.ReLit(" ")))
	item := smt.ReConcat(ws, smt.ReUnion(alts...), ws)
	return smt.ReConcat(item, smt.ReStar(smt.ReConcat(smt.ReLit(","), item)))
}

func splitValuesSummary(in *sym.Interp, st *sym.State, args []sym.Value) sym.Value {
	return &sym.SplitValuesV{X: args[0].(*smt.Term)}
}

func inSummary(in *sym.Interp, st *sym.State, args []sym.Value) sym.Value {
	var consts []string
	var constTerms []*smt.Term
	for _, e := range sym.SliceElems(st, args[1]) {
		t := e.(*smt.Term)
		constTerms = append(constTerms, t)
		if t.IsConst() {
			consts = append(consts, t.S)
		}
	}
	switch v := args[0].(type) {
	case *sym.SplitValuesV:
		if len(consts) != len(constTerms) {
			panic("in(splitValues(..), non-constant list)")
		}
		return smt.InRe(v.X, enumLanguage(consts))
	default:
		// concrete-length list: every element equals some list entry
		var cs []*smt.Term
		for _, e := range sym.SliceElems(st, args[0]) {
			var ds []*smt.Term
			for _, c := range constTerms {
				ds = append(ds, smt.Eq(e.(*smt.Term), c))
			}
			cs = append(cs, smt.Or(ds...))
		}
		return smt.And(cs...)
	}
}

// proveEnumSummary validates both summaries against the real bodies of
// css.splitValues and css.in for values of up to 3 comma parts.
func (c *Ctx) proveEnumSummary(ev *Evidence, timeout time.Duration) (bool, error) {
	in, err := c.NewInterp(sym.Config{NoFeasCheck: true, SplitMax: 3, MaxStates: 50000})
	if err != nil {
		return false, err
	}
	defer in.Close()
	fin, fsv := in.FindFunc(cssPkg+".in"), in.FindFunc(cssPkg+".splitValues")
	if fin == nil || fsv == nil {
		return false, nil
	}
	for _, list := range [][]string{{"x"}, {"ab", "c", "d-e"}} {
		v := smt.Var("enum.v", smt.String)
		st := in.NewState()
		// run splitValues, then in on its result
		s1, err := in.RunFrom(st, fsv, []sym.Value{v})
		if err != nil {
			return false, err
		}
		for _, a := range s1 {
			if a.Status == sym.Cut {
				continue
			}
			if a.Status != sym.Finished {
				return false, fmt.Errorf("splitValues path ended with %s %s", StatusName(a.Status), a.Reason)
			}
			var lt []sym.Value
			for _, x := range list {
				lt = append(lt, smt.StrC(x))
			}
			a.Status = sym.Running
			a.Frames = nil
			lv := in.NewSliceValue(a, lt)
			s2, err := in.RunFrom(a, fin, []sym.Value{a.Ret, lv})
			if err != nil {
				return false, err
			}
			for _, b := range s2 {
				if b.Status != sym.Finished {
					return false, fmt.Errorf("in path ended with %s %s", StatusName(b.Status), b.Reason)
				}
				ret := b.Ret.(*smt.Term)
				spec := smt.InRe(v, enumLanguage(list))
				as := sym.ProjectDecomps(append(append([]*smt.Term{}, b.PC...), smt.Not(smt.Eq(ret, spec))))
				full := smt.And(as...)
				if full.IsFalse() {
					continue
				}
				var r smt.Result
				in.WithWorker(func(w *smt.Worker) {
					r = w.Check(&smt.Query{Name: "C18-lemma-enum", Asserts: append([]*smt.Term{full}, sym.SideConditions([]*smt.Term{full})...), Values: []*smt.Term{v}, Timeout: timeout, Both: true, Grace: 300 * time.Millisecond})
				})
				ev.Query(fmt.Sprintf("C18-lemma-enum-%d-p%d", len(list), b.ID), r)
				ev.AddTransitions(1)
				if r.Status != smt.Unsat {
					if r.Status == smt.Sat {
						c.Log("enum summary refuted on %q", r.Values[0].S)
					}
					return false, nil
				}
			}
		}
	}
	ev.Func(cssPkg + ".splitValues and css.in [the idiom in(splitValues(v), consts) proven equal to a regular language for <=3 parts, then summarised for any number of parts]")
	return true, nil
}

// ---- distribution of hostile classes over separated parts -----------------------
//
// For composite handlers the value is split at " ", "/", " / " or "," and the
// sub-handlers see parts or single-space joins of parts. For each hostile
// class C and separator s the solver proves, once per run and for arbitrary
// strings,   C(a·s·b) => C(a) or C(b)   and   C(p) => C(a· ·p· ·b) (with the
// obvious variants at the ends). With these, "C(v) and no accepted group is
// hostile" is refuted propositionally.

// c18NotDecided lists handlers whose queries do not finish at the registered
// bounds; they are reported as outside the claim, not as passed.
var c18NotDecided = map[string]bool{"TransformHandler": true}

// c18ThoroughOnly: handlers whose queries take minutes; quick skips them.
var c18ThoroughOnly = map[string]bool{"FontFamilyHandler": true, "BorderSideRadiusHandler": true, "FontHandler": true, "BackgroundHandler": true, "BackgroundPositionHandler": true}

var c18Separators = []string{" ", "/", " / ", ","}

func (c *Ctx) proveDistribution(ev *Evidence, in *sym.Interp, timeout time.Duration) map[string]bool {
	ok := map[string]bool{}
	a, b, p := smt.Var("dist.a", smt.String), smt.Var("dist.b", smt.String), smt.Var("dist.p", smt.String)
	type job struct {
		key string
		f   *smt.Term
	}
	var jobs []job
	classesOf := func(x *smt.Term) map[string]*smt.Term { return hostileClasses(x) }
	for name := range classesOf(a) {
		for _, s := range c18Separators {
			whole := smt.App("str.++", smt.String, a, smt.StrC(s), b)
			jobs = append(jobs, job{name + "|split|" + s, smt.And(hostileClassRaw(name, whole), smt.Not(classesOf(a)[name]), smt.Not(classesOf(b)[name]))})
		}
		for i, t := range []*smt.Term{
			smt.App("str.++", smt.String, a, smt.StrC(" "), p, smt.StrC(" "), b),
			smt.App("str.++", smt.String, p, smt.StrC(" "), b),
			smt.App("str.++", smt.String, a, smt.StrC(" "), p),
		} {
			jobs = append(jobs, job{fmt.Sprintf("%s|join|%d", name, i), smt.And(classesOf(p)[name], smt.Not(hostileClassRaw(name, t)))})
		}
	}
	res := make([]smt.Result, len(jobs))
	var wg sync.WaitGroup
	for i, j := range jobs {
		wg.Add(1)
		go func(i int, j job) {
			defer wg.Done()
			as := []*smt.Term{j.f, smt.ASCII(a), smt.ASCII(b), smt.ASCII(p)}
			in.WithWorker(func(w *smt.Worker) {
				res[i] = w.Check(&smt.Query{Name: "C18-dist-" + j.key, Asserts: as, Timeout: timeout, Both: true, Grace: 2 * time.Second})
			})
			ev.Query("C18-dist-"+j.key, res[i])
			ev.AddTransitions(1)
		}(i, j)
	}
	wg.Wait()
	for i, j := range jobs {
		ok[j.key] = res[i].Status == smt.Unsat
		if res[i].Status != smt.Unsat {
			c.Log("distribution lemma %s not established (%s)", j.key, res[i].Status)
		}
	}
	return ok
}

// hostileClassRaw builds the class predicate on a term without the
// Contains-distribution rewriting (so that the lemma is about the real
// predicate).
func hostileClassRaw(name string, v *smt.Term) *smt.Term {
	if strings.HasPrefix(name, "contains ") {
		return smt.App("str.contains", smt.Bool, v, smt.StrC(strings.TrimPrefix(name, "contains ")))
	}
	return hostileClasses(v)[name]
}

// refuteByDistribution tries to refute "path accepts and C(v)" using only the
// established distribution lemmas and the sub-handler lemma instances.
func refuteByDistribution(in *sym.Interp, dist map[string]bool, class string, v *smt.Term, acc []*smt.Term, eqs map[*smt.Term]*smt.Term) bool {
	if len(eqs) == 0 || dist == nil {
		return false
	}
	// finest decomposition of v
	t := v
	for d := 0; d < 4; d++ {
		n := smt.Subst(t, eqs)
		if n == t {
			break
		}
		t = n
	}
	if t.Op != "str.++" {
		return false
	}
	var parts []*smt.Term
	prevVar := false
	for _, x := range t.Args {
		if x.IsConst() {
			sepOK := false
			for _, s := range c18Separators {
				if x.S == s && dist[class+"|split|"+s] {
					sepOK = true
				}
			}
			if !sepOK {
				return false
			}
			prevVar = false
		} else {
			if prevVar {
				return false
			}
			parts = append(parts, x)
			prevVar = true
		}
	}
	for i := 0; i < 3; i++ {
		if !dist[fmt.Sprintf("%s|join|%d", class, i)] {
			return false
		}
	}
	isPart := map[*smt.Term]bool{}
	for _, p := range parts {
		isPart[p] = true
	}
	// propositional abstraction
	atom := func(x *smt.Term) *smt.Term { return smt.UF("C?", smt.Bool, x) }
	var fs []*smt.Term
	var ds []*smt.Term
	for _, p := range parts {
		ds = append(ds, atom(p))
	}
	fs = append(fs, smt.Or(ds...)) // C(v) => some part
	okShape := true
	full := smt.And(acc...)
	smt.Walk(full, func(x *smt.Term) {
		if x.Op != "uf" || !strings.HasPrefix(x.Name, "J.") {
			return
		}
		arg := x.Args[0]
		var inside []*smt.Term
		switch {
		case isPart[arg]:
			inside = []*smt.Term{arg}
		case arg.Op == "str.++":
			for i, y := range arg.Args {
				if i%2 == 0 {
					if !isPart[y] {
						okShape = false
					}
					inside = append(inside, y)
				} else if !(y.IsConst() && y.S == " ") {
					okShape = false
				}
			}
		default:
			okShape = false
		}
		// lemma: J(t) => not C(t); and C(p) => C(t) for the parts of t
		fs = append(fs, smt.Implies(x, smt.Not(atom(arg))))
		for _, p := range inside {
			if p != arg {
				fs = append(fs, smt.Implies(atom(p), atom(arg)))
			}
		}
	})
	if !okShape {
		return false
	}
	// parts compared with constants (keyword lists): the class of a constant is known
	smt.Walk(full, func(x *smt.Term) {
		if x.Op != "=" || len(x.Args) != 2 {
			return
		}
		for i := 0; i < 2; i++ {
			if isPart[x.Args[i]] && x.Args[1-i].IsConst() && x.Args[1-i].Sort == smt.String {
				holds, known := classNative(class, x.Args[1-i].S)
				if known {
					if holds {
						fs = append(fs, smt.Implies(x, atom(x.Args[i])))
					} else {
						fs = append(fs, smt.Implies(x, smt.Not(atom(x.Args[i]))))
					}
				}
			}
		}
	})
	// propositional skeleton of the path condition: keep it as is (J atoms are UF booleans)
	q := smt.And(append(append([]*smt.Term{}, acc...), fs...)...)
	if q.IsFalse() {
		return true
	}
	var r smt.Result
	in.WithWorker(func(w *smt.Worker) {
		r = w.Check(&smt.Query{Name: "C18-distribution-refutation", Asserts: append([]*smt.Term{q}, sym.SideConditions([]*smt.Term{q})...), Timeout: 8 * time.Second, Both: true, Grace: 300 * time.Millisecond})
	})
	return r.Status == smt.Unsat
}

// c18Words are ordinary CSS component values; c18Vocabulary records which of
// them each default handler really accepts (one native batch per run). They
// are used only to turn a symbolic counterexample that relies on an opaque
// sub-handler into a concrete one.
var c18Words = []string{"red", "#fff", "#000000", "rgb(0,0,0)", "1px", "0", "10%", "2em", "1", "0.5", "auto", "none", "left", "top", "center", "solid", "thin", "medium",
	"inherit", "initial", "bold", "italic", "serif", "url(http://a)", "1s", "ease", "all", "normal", "10px 10px", "block", "1px solid red", "a", "x1"}

var c18VocabMu sync.Mutex

func c18Vocabulary(c *Ctx, handlers []*handlerInfo) map[string][]string {
	var reqs []NativeReq
	type key struct{ h, w string }
	var keys []key
	for _, h := range handlers {
		for _, w := range c18Words {
			reqs = append(reqs, NativeReq{"op": "csshandler", "prop": h.Props[0], "value": w})
			keys = append(keys, key{h.Name, w})
		}
	}
	out := map[string][]string{}
	res, err := RunNative(c.Repo, c.VerifDir, reqs, "")
	if err != nil {
		c.Log("C18 vocabulary: native run failed: %v", err)
		return out
	}
	for i, k := range keys {
		if a, _ := res[i]["accept"].(bool); a {
			out[k.h] = append(out[k.h], k.w)
		}
	}
	return out
}

func c18Refine(c *Ctx, in *sym.Interp, vocab map[string][]string, full, v *smt.Term, name string, timeout time.Duration) (string, bool) {
	// one accepted word per sub-handler at a time (equalities propagate much
	// better than a disjunction over the vocabulary), a few rounds
	for round := 0; round < 3; round++ {
		var extra []*smt.Term
		seen := map[*smt.Term]bool{}
		usable := false
		smt.Walk(full, func(x *smt.Term) {
			if x.Op != "uf" || !strings.HasPrefix(x.Name, "J.") || seen[x] {
				return
			}
			seen[x] = true
			words, ok := vocab[strings.TrimPrefix(x.Name, "J.")]
			if !ok || len(words) == 0 {
				return
			}
			if round < len(words) {
				usable = true
			}
			extra = append(extra, smt.Implies(x, smt.Eq(x.Args[0], smt.StrC(words[round%len(words)]))))
		})
		if len(extra) == 0 || !usable {
			return "", false
		}
		f := smt.And(append([]*smt.Term{full}, extra...)...)
		if f.IsFalse() {
			continue
		}
		var r smt.Result
		in.WithWorker(func(w *smt.Worker) {
			r = w.Check(&smt.Query{Name: name + "-refined", Asserts: append([]*smt.Term{f}, sym.SideConditions([]*smt.Term{f})...), Values: []*smt.Term{v}, Timeout: 3 * timeout})
		})
		c.Log("%s-refined round %d: %s (%s) in %.1fs", name, round, r.Status, r.Note, r.Seconds)
		if r.Status == smt.Sat {
			c.Log("%s-refined: candidate %q", name, r.Values[0].S)
			return r.Values[0].S, true
		}
	}
	return "", false
}

// indexesParts reports whether fn reads a []string at a constant index >= 1,
// i.e. treats the components of a split value positionally. Such handlers are
// explored with more parts, because a component beyond the last index the
// code mentions is exactly what an "unchecked trailing component" defect is.
func indexesParts(fn *ssa.Function) bool {
	for _, b := range fn.Blocks {
		for _, ins := range b.Instrs {
			ia, ok := ins.(*ssa.IndexAddr)
			if !ok {
				continue
			}
			sl, ok := ia.X.Type().Underlying().(*types.Slice)
			if !ok {
				continue
			}
			if bt, ok := sl.Elem().Underlying().(*types.Basic); !ok || bt.Kind() != types.String {
				continue
			}
			if cst, ok := ia.Index.(*ssa.Const); ok && cst.Value != nil && cst.Int64() >= 1 {
				return true
			}
		}
	}
	return false
}

// classNative evaluates a hostile class on a constant.
func classNative(class, s string) (holds, known bool) {
	if strings.HasPrefix(class, "contains ") {
		return strings.Contains(s, strings.TrimPrefix(class, "contains ")), true
	}
	switch class {
	case "javascript:/data: reference":
		return reJSData.MatchString(s), true
	case "url() that is not a plain http/https reference":
		return urlBadNative(s), true
	}
	return false, false
}
