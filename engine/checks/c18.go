package checks

import (
	"fmt"
	"sort"
	"strings"
	"sync"
	"time"

	"bmsym/smt"
	"bmsym/sym"

	"golang.org/x/tools/go/ssa"
)

const cssPkg = "github.com/microcosm-cc/bluemonday/css"

// hostile(v): the value contains a fragment C18 forbids. A url(...) is only
// acceptable as a plain http/https reference, so "url(" must be followed by
// an optional quote and http.
func hostileTerm(v *smt.Term) *smt.Term {
	var ds []*smt.Term
	for _, f := range []string{"<", ">", "\\", "@", "expression(", "javascript:", "data:"} {
		ds = append(ds, smt.Contains(v, smt.StrC(f)))
	}
	badURL := smt.Translate(`url\(([^"'h]|["'][^h]|["']?h[^t]|["']?ht[^t]|["']?htt[^p]|["']?http[^s:]|["']?https[^:]|["']?$|["']?h$|["']?ht$|["']?htt$|["']?http$|["']?https$)`)
	ds = append(ds, badURL.Match(v))
	return smt.Or(ds...)
}

func hostileNative(v string) string {
	for _, f := range []string{"<", ">", "\\", "@", "expression(", "javascript:", "data:"} {
		if strings.Contains(v, f) {
			return "contains " + f
		}
	}
	rest := v
	for {
		i := strings.Index(rest, "url(")
		if i < 0 {
			return ""
		}
		r := rest[i+4:]
		r = strings.TrimLeft(r, `"'`)
		if !strings.HasPrefix(r, "http:") && !strings.HasPrefix(r, "https:") {
			return "contains a url() that is not a plain http/https reference"
		}
		rest = rest[i+4:]
	}
}

type handlerInfo struct {
	Name  string // function name
	Fn    *ssa.Function
	Props []string
}

// cssHandlers reads the real defaultStyleHandlers map from the heap left by
// the package initialiser.
func cssHandlers(in *sym.Interp) ([]*handlerInfo, error) {
	v, err := in.GlobalValue(cssPkg, "defaultStyleHandlers")
	if err != nil {
		return nil, err
	}
	m, ok := v.(sym.MapV)
	if !ok || m.Obj == 0 {
		return nil, fmt.Errorf("defaultStyleHandlers is not an initialised map")
	}
	md := in.BaseHeap[m.Obj].(*sym.MapData)
	byFn := map[*ssa.Function]*handlerInfo{}
	var out []*handlerInfo
	for _, e := range md.Entries {
		k := e.K.(*smt.Term)
		fv, ok := e.V.(*sym.FuncV)
		if !ok || fv == nil || fv.Fn == nil {
			return nil, fmt.Errorf("defaultStyleHandlers[%q] is not a function", k.S)
		}
		hi := byFn[fv.Fn]
		if hi == nil {
			hi = &handlerInfo{Name: fv.Fn.Name(), Fn: fv.Fn}
			byFn[fv.Fn] = hi
			out = append(out, hi)
		}
		hi.Props = append(hi.Props, k.S)
	}
	sort.Slice(out, func(i, j int) bool { return out[i].Name < out[j].Name })
	return out, nil
}

// C18: default CSS value handlers accept only inert values.
func runC18(c *Ctx, ev *Evidence) ([]Violation, error) {
	timeout, grace := 20*time.Second, 1*time.Second
	K := 2
	if c.Tier == "thorough" {
		timeout, grace, K = 120*time.Second, 5*time.Second, 3
	}
	base, err := c.NewInterp(sym.Config{})
	if err != nil {
		return nil, err
	}
	handlers, err := cssHandlers(base)
	if err != nil {
		base.Close()
		return nil, err
	}
	// every function of the css package with the handler signature
	isHandler := map[string]bool{}
	for _, m := range base.Pkgs[cssPkg].Members {
		if f, ok := m.(*ssa.Function); ok && strings.HasSuffix(f.Name(), "Handler") && f.Signature.Params().Len() == 1 && f.Signature.Results().Len() == 1 {
			isHandler[f.String()] = true
		}
	}
	base.Close()
	ev.Bound("split_parts_max", K)
	ev.Bound("handlers", len(handlers))
	ev.Bound("values", "all 7-bit ASCII strings whose comma/space/slash splits have at most K parts per level; longer values are cut and counted")
	ev.Assume("modular reasoning over the handler call graph: inside a handler, calls of other handlers are opaque predicates carrying the lemma 'accepts t => t has no hostile fragment', which is what this check establishes for that handler",
		"regexp.ReplaceAll(v, \"\") with the four unanchored function-name patterns neither deletes nor creates a hostile fragment",
		"A4: regexp/syntax semantics as translated; values are lower-cased and escape-decoded by the caller (C10)")
	ev.Outside("membership in the property's value space beyond inertness (no per-property grammar oracle)")
	var mu sync.Mutex
	var viols []Violation
	seen := map[string]bool{}
	var wg sync.WaitGroup
	sem := make(chan struct{}, 4)
	totalPaths, totalAccept := 0, 0
	for _, h := range handlers {
		wg.Add(1)
		go func(h *handlerInfo) {
			defer wg.Done()
			sem <- struct{}{}
			defer func() { <-sem }()
			intercept := map[string]sym.Model{}
			for name := range isHandler {
				if name == h.Fn.String() {
					continue
				}
				nm := name
				intercept[nm] = func(in *sym.Interp, st *sym.State, cc *ssa.CallCommon, args []sym.Value) []sym.Alt {
					short := nm[strings.LastIndex(nm, ".")+1:]
					return []sym.Alt{{Ret: smt.UF("J."+short, smt.Bool, args[0].(*smt.Term))}}
				}
			}
			in, err := c.NewInterp(sym.Config{NoFeasCheck: true, SplitMax: K, Intercept: intercept, Workers: 4, MaxStates: 60000, UnwindSym: 12})
			if err != nil {
				ev.Inconclusive(h.Name + ": " + err.Error())
				return
			}
			defer in.Close()
			v := smt.Var("v", smt.String)
			states, err := in.RunFrom(in.NewState(), h.Fn, []sym.Value{v})
			if err != nil {
				ev.Inconclusive(h.Name + ": exploration: " + err.Error())
				return
			}
			ev.Func(cssPkg + "." + h.Name)
			nAcc := 0
			for _, st := range states {
				switch st.Status {
				case sym.Unsupported:
					ev.Inconclusive(h.Name + ": " + st.Reason)
					return
				case sym.Cut:
					for _, a := range st.Assumed {
						if !strings.Contains(a, "uninterpreted") {
							ev.Outside(fmt.Sprintf("%s: paths cut by bound '%s'", h.Name, a))
						}
					}
					continue
				case sym.Panicked:
					continue // C14's subject
				case sym.Finished:
				default:
					continue
				}
				ret, ok := st.Ret.(*smt.Term)
				if !ok {
					continue
				}
				acc := append(append([]*smt.Term{}, st.PC...), ret)
				if smt.And(acc...).IsFalse() {
					continue
				}
				nAcc++
				// lemma instances for opaque sub-handler calls that returned true
				var lemmas []*smt.Term
				smt.Walk(smt.And(acc...), func(x *smt.Term) {
					if x.Op == "uf" && strings.HasPrefix(x.Name, "J.") {
						lemmas = append(lemmas, smt.Implies(x, smt.Not(hostileTerm(x.Args[0]))))
					}
				})
				as := append(acc, hostileTerm(v))
				as = append(as, lemmas...)
				as = sym.ProjectDecomps(as)
				full := smt.And(as...)
				if full.IsFalse() {
					continue
				}
				var r smt.Result
				name := fmt.Sprintf("C18-%s-p%d", h.Name, st.ID)
				q := &smt.Query{Name: name, Asserts: append([]*smt.Term{full}, sym.SideConditions([]*smt.Term{full})...), Values: []*smt.Term{v}, Timeout: timeout, Both: true, Grace: grace}
				in.WithWorker(func(w *smt.Worker) { r = w.Check(q) })
				ev.Query(name, r)
				ev.AddTransitions(1)
				switch r.Status {
				case smt.Unknown:
					ev.Inconclusive(fmt.Sprintf("%s: accepting path %d undecided (%s)", h.Name, st.ID, r.Note))
				case smt.Sat:
					val := r.Values[0].S
					mu.Lock()
					if seen[h.Name] {
						mu.Unlock()
						continue
					}
					mu.Unlock()
					req := NativeReq{"op": "csshandler", "prop": h.Props[0], "value": val}
					nres, nerr := RunNative(c.Repo, c.VerifDir, []NativeReq{req}, "")
					if nerr != nil {
						ev.Inconclusive(h.Name + ": native run: " + nerr.Error())
						continue
					}
					accepted, _ := nres[0]["accept"].(bool)
					why := hostileNative(val)
					ev.Sample(map[string]interface{}{"query": name, "handler": h.Name, "value": val, "native_accepts": accepted, "hostile": why})
					mu.Lock()
					if accepted && why != "" {
						ev.AddReplayed(1)
						if !seen[h.Name] {
							seen[h.Name] = true
							viols = append(viols, Violation{Sig: "handler=" + h.Name, Detail: fmt.Sprintf("%s (%s) accepts %q which %s", h.Name, strings.Join(h.Props, ","), val, why), Replay: []NativeReq{req}})
						}
					} else {
						ev.Inconclusive(fmt.Sprintf("%s: model %q did not reproduce natively (accepts=%v, hostile=%q); it may rest on an opaque sub-handler", h.Name, val, accepted, why))
					}
					mu.Unlock()
				}
			}
			mu.Lock()
			totalPaths += len(states)
			totalAccept += nAcc
			mu.Unlock()
			ev.AddStates(len(states))
			if nAcc == 0 && h.Name != "BaseHandler" {
				ev.Inconclusive(h.Name + ": no accepting path (vacuous)")
			}
		}(h)
	}
	wg.Wait()
	ev.Sample(map[string]interface{}{"query": "C18 summary", "handlers": len(handlers), "paths": totalPaths, "accepting_paths": totalAccept})
	// unknown property -> rejecting handler
	{
		in, err := c.NewInterp(sym.Config{NoFeasCheck: true})
		if err != nil {
			return nil, err
		}
		gd := in.FindFunc(cssPkg + ".GetDefaultHandler")
		if gd == nil {
			ev.Inconclusive("css.GetDefaultHandler not found")
		} else {
			name := smt.Var("prop", smt.String)
			var known []*smt.Term
			for _, h := range handlers {
				for _, p := range h.Props {
					known = append(known, smt.Not(smt.Eq(name, smt.StrC(p))))
				}
			}
			st0 := in.NewState()
			st0.PC = append(st0.PC, known...)
			states, err := in.RunFrom(st0, gd, []sym.Value{name})
			if err != nil {
				ev.Inconclusive("GetDefaultHandler: " + err.Error())
			}
			for _, st := range states {
				if st.Status != sym.Finished {
					continue
				}
				if smt.And(st.PC...).IsFalse() {
					continue
				}
				fv, _ := st.Ret.(*sym.FuncV)
				if fv == nil || fv.Fn == nil || fv.Fn.Name() != "BaseHandler" {
					var r smt.Result
					full := smt.And(st.PC...)
					in.WithWorker(func(w *smt.Worker) {
						r = w.Check(&smt.Query{Name: "C18-unknown-prop", Asserts: append([]*smt.Term{full}, sym.SideConditions([]*smt.Term{full})...), Values: []*smt.Term{name}, Timeout: timeout})
					})
					ev.Query("C18-unknown-prop", r)
					if r.Status == smt.Sat {
						viols = append(viols, Violation{Sig: "site=GetDefaultHandler", Detail: fmt.Sprintf("unknown property %q does not get the rejecting handler", r.Values[0].S)})
					}
				}
			}
			// BaseHandler rejects everything
			bh := in.FindFunc(cssPkg + ".BaseHandler")
			if bh != nil {
				sts, _ := in.RunFrom(in.NewState(), bh, []sym.Value{smt.Var("v", smt.String)})
				for _, st := range sts {
					if t, ok := st.Ret.(*smt.Term); ok && !t.IsFalse() {
						viols = append(viols, Violation{Sig: "site=BaseHandler", Detail: "BaseHandler may accept a value"})
					}
				}
				ev.AddStates(len(sts))
			}
		}
		in.Close()
	}
	return viols, nil
}
