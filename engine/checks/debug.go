package checks

import (
	"fmt"

	"bmsym/sym"
)

// DebugSteps prints the extracted step relation (developer aid).
func DebugSteps(c *Ctx, harness string, attrs int) error {
	in, err := c.NewInterp(sym.Config{MaxAttrs: attrs, Stubs: map[string]string{sanitizeAttrsFn: "stubSanitizeAttrs"}})
	if err != nil {
		return err
	}
	defer in.Close()
	s, err := c.ExtractSteps(in, harness, nil)
	if err != nil {
		return err
	}
	fmt.Printf("%d step paths, %d other, %d safety obligations, %.1fs; stats %+v\n", len(s.Paths), len(s.Other), len(s.Safety), s.Seconds, in.Stats)
	for _, p := range s.Paths {
		fmt.Printf("  #%d %s\n", p.ID, p.Describe())
	}
	for _, o := range s.Other {
		fmt.Printf("  other #%d %s %s\n", o.ID, StatusName(o.Status), o.Reason)
	}
	for _, o := range s.Safety {
		fmt.Printf("  safety %s @%s cond=%s\n", o.ID, o.Where, o.Cond)
	}
	return nil
}
