package checks

import (
	"fmt"
	"net/url"
	"os"
	"sort"
	"strings"
	"sync"
	"sync/atomic"
	"time"

	"bmsym/smt"
	"bmsym/sym"
)

// UnitRun is the result of exploring a unit harness (a harness that calls the
// function under analysis once with symbolic arguments and asserts an oracle).
type UnitRun struct {
	In     *sym.Interp
	States []*sym.State
	Obs    []*sym.Obligation
	Safety []*sym.Obligation
}

func (c *Ctx) exploreUnit(ev *Evidence, harness string, cfg sym.Config) (*UnitRun, error) {
	cfg.NoFeasCheck = !cfg.ForceFeas
	in, err := c.NewInterp(cfg)
	if err != nil {
		return nil, err
	}
	fn := in.FindFunc(harness)
	if fn == nil {
		in.Close()
		return nil, fmt.Errorf("harness %s not found", harness)
	}
	in.Obligations = nil
	states, err := in.RunFrom(in.NewState(), fn, nil)
	if err != nil {
		in.Close()
		return nil, err
	}
	ur := &UnitRun{In: in, States: states}
	cut := map[string]int{}
	for _, s := range states {
		switch s.Status {
		case sym.Unsupported:
			in.Close()
			return nil, fmt.Errorf("engine cannot execute a path of %s: %s", harness, s.Reason)
		case sym.Cut:
			for _, a := range s.Assumed {
				cut[a]++
			}
		}
	}
	for a, n := range cut {
		ev.Outside(fmt.Sprintf("%s: %d paths cut by bound '%s'", harness, n, a))
	}
	for _, ob := range in.Obligations {
		if ob.Kind == "safety" {
			ur.Safety = append(ur.Safety, ob)
		} else {
			ur.Obs = append(ur.Obs, ob)
		}
	}
	in.Obligations = nil
	ev.AddStates(len(states))
	c.Log("%s: %d paths, %d obligations, %d safety obligations", harness, len(states), len(ur.Obs), len(ur.Safety))
	return ur, nil
}

// noteTerms returns the harness notes of an obligation's path as terms.
func noteTerms(ob *sym.Obligation) map[string]*smt.Term {
	m := map[string]*smt.Term{}
	for k, v := range ob.Ghost {
		if strings.HasPrefix(k, "note:") {
			if t, ok := v.(*smt.Term); ok {
				m[strings.TrimPrefix(k, "note:")] = t
			}
		}
	}
	if l, ok := ob.Ghost["urlstubs"].([][3]*smt.Term); ok {
		for i, u := range l {
			m[fmt.Sprintf("urlstub%d.raw", i)] = u[0]
			m[fmt.Sprintf("urlstub%d.out", i)] = u[1]
			m[fmt.Sprintf("urlstub%d.ok", i)] = u[2]
		}
	}
	return m
}

// UnitResult of one obligation.
type UnitResult struct {
	Ob     *sym.Obligation
	Res    smt.Result
	Notes  map[string]smt.ModelValue
	UFVals map[string]smt.ModelValue // "@<app term>" -> value, plus argument values
	Terms  map[string]*smt.Term
}

// solveOb asks pc ∧ ¬cond (assert) or pc (reach), with optional extra
// constraints, and returns the values of the notes and of every UF
// application.
func solveOb(in *sym.Interp, ob *sym.Obligation, extra []*smt.Term, timeout, grace time.Duration, name string) UnitResult {
	var asserts []*smt.Term
	asserts = append(asserts, ob.PC...)
	if ob.Kind != "reach" {
		asserts = append(asserts, smt.Not(ob.Cond))
	}
	asserts = append(asserts, extra...)
	asserts = sym.ProjectDecomps(asserts)
	full := smt.And(asserts...)
	ur := UnitResult{Ob: ob}
	if full.IsFalse() {
		ur.Res = smt.Result{Status: smt.Unsat, Solver: "syntactic"}
		return ur
	}
	all := append([]*smt.Term{full}, sym.SideConditions([]*smt.Term{full})...)
	terms := map[string]*smt.Term{}
	for k, t := range noteTerms(ob) {
		terms["note:"+k] = t
	}
	for _, a := range all {
		smt.Walk(a, func(x *smt.Term) {
			if x.Op == "uf" && len(x.Args) > 0 && x.Sort != smt.RegLan {
				terms["@"+x.String()] = x
				for _, arg := range x.Args {
					if arg.Sort == smt.String || arg.Sort == smt.Int || arg.Sort == smt.Bool {
						terms["@"+arg.String()] = arg
					}
				}
			}
			if x.Op == "var" && (x.Sort == smt.String || x.Sort == smt.Int || x.Sort == smt.Bool) {
				terms["$"+x.Name] = x
			}
		})
	}
	var names []string
	for k := range terms {
		names = append(names, k)
	}
	sort.Strings(names)
	var vals []*smt.Term
	for _, n := range names {
		vals = append(vals, terms[n])
	}
	q := &smt.Query{Name: name, Asserts: all, Values: vals, Timeout: timeout, Both: true, Grace: grace}
	in.WithWorker(func(w *smt.Worker) { ur.Res = w.Check(q) })
	if ur.Res.Status == smt.Unknown {
		// Relaxation: drop every conjunct that mentions a variable introduced by
		// a relational library model (fresh, named "...!n"). Dropping conjuncts
		// only weakens the formula, so an unsat answer carries over.
		var keep []*smt.Term
		flat := full
		parts := []*smt.Term{flat}
		if flat.Op == "and" {
			parts = flat.Args
		}
		for _, p := range parts {
			fresh := false
			smt.Walk(p, func(x *smt.Term) {
				if x.Op == "var" && strings.Contains(x.Name, "!") {
					fresh = true
				}
			})
			if !fresh {
				keep = append(keep, p)
			}
		}
		// first a milder relaxation: drop only what mentions the result variables of
		// FindString / FindStringIndex models, then project the remaining
		// decompositions to regular constraints
		{
			var keep2 []*smt.Term
			for _, p := range parts {
				drop := false
				smt.Walk(p, func(x *smt.Term) {
					if x.Op == "var" && (strings.HasPrefix(x.Name, "find!") || strings.HasPrefix(x.Name, "fsi.")) {
						drop = true
					}
					if x.Op == "str.replace_all" {
						drop = true
					}
				})
				if !drop {
					keep2 = append(keep2, p)
				}
			}
			if len(keep2) > 0 && len(keep2) < len(parts) {
				rel := smt.And(sym.ProjectDecomps(keep2)...)
				rq := &smt.Query{Name: name + "-relaxed-find", Asserts: append([]*smt.Term{rel}, sym.SideConditions([]*smt.Term{rel})...), Timeout: timeout, Both: true, Grace: grace}
				var rr smt.Result
				in.WithWorker(func(w *smt.Worker) { rr = w.Check(rq) })
				if rr.Status == smt.Unsat {
					rr.Note = "unsat of a relaxed formula (conjuncts over FindString results dropped); " + rr.Note
					ur.Res = rr
				}
			}
		}
		if ur.Res.Status == smt.Unknown && len(keep) > 0 && len(keep) < len(parts) {
			rel := smt.And(keep...)
			rq := &smt.Query{Name: name + "-relaxed", Asserts: append([]*smt.Term{rel}, sym.SideConditions([]*smt.Term{rel})...), Timeout: timeout, Both: true, Grace: grace}
			var rr smt.Result
			in.WithWorker(func(w *smt.Worker) { rr = w.Check(rq) })
			if rr.Status == smt.Unsat {
				rr.Note = "unsat of the relaxed formula (conjuncts over model-introduced variables dropped); " + rr.Note
				ur.Res = rr
			}
		}
	}
	if ur.Res.Status == smt.Sat {
		ur.Notes = map[string]smt.ModelValue{}
		ur.UFVals = map[string]smt.ModelValue{}
		ur.Terms = terms
		for i, n := range names {
			if strings.HasPrefix(n, "note:") {
				ur.Notes[strings.TrimPrefix(n, "note:")] = ur.Res.Values[i]
			} else {
				ur.UFVals[n] = ur.Res.Values[i]
			}
		}
	}
	return ur
}

// dischargeAll solves every obligation in parallel.
func dischargeAll(in *sym.Interp, ev *Evidence, obs []*sym.Obligation, filter func(*sym.Obligation) bool, timeout, grace time.Duration, label string) []UnitResult {
	var out []UnitResult
	dischargeStream(in, ev, obs, filter, timeout, grace, label, 0, func(r UnitResult) bool {
		out = append(out, r)
		return false
	})
	return out
}

// dischargeStream solves obligations in parallel and hands each result to
// onResult (serialised) as it arrives. onResult returns true to stop early.
// After budget (0 = none) no new query is started; the number of obligations
// left undecided is returned.
func dischargeStream(in *sym.Interp, ev *Evidence, obs []*sym.Obligation, filter func(*sym.Obligation) bool, timeout, grace time.Duration, label string, budget time.Duration, onResult func(UnitResult) bool) (skipped int) {
	var sel []*sym.Obligation
	for _, ob := range obs {
		if filter == nil || filter(ob) {
			sel = append(sel, ob)
		}
	}
	start := time.Now()
	var stop int32
	var mu sync.Mutex
	var doneCount int64
	jobs := make(chan *sym.Obligation, len(sel))
	for _, ob := range sel {
		jobs <- ob
	}
	close(jobs)
	var wg sync.WaitGroup
	nw := in.Cfg.Workers
	if nw == 0 {
		nw = 16
	}
	for i := 0; i < nw; i++ {
		wg.Add(1)
		go func() {
			defer wg.Done()
			for ob := range jobs {
				if atomic.LoadInt32(&stop) != 0 || (budget > 0 && time.Since(start) > budget) {
					mu.Lock()
					skipped++
					mu.Unlock()
					continue
				}
				name := fmt.Sprintf("%s-%s-p%d", label, ob.ID, ob.PathID)
				r := solveOb(in, ob, nil, timeout, grace, name)
				if r.Res.Solver != "syntactic" {
					ev.Query(name, r.Res)
				}
				ev.AddTransitions(1)
				if n := atomic.AddInt64(&doneCount, 1); n%200 == 0 && os.Getenv("BMSYM_PROGRESS") != "" {
					fmt.Fprintf(os.Stderr, "discharged %d/%d\n", n, len(sel))
				}
				mu.Lock()
				if atomic.LoadInt32(&stop) == 0 && onResult(r) {
					atomic.StoreInt32(&stop, 1)
				}
				mu.Unlock()
			}
		}()
	}
	wg.Wait()
	return skipped
}

// attrsFromNotes decodes "<prefix>.n", "<prefix>.k<i>", "<prefix>.v<i>".
func attrsFromNotes(notes map[string]smt.ModelValue, prefix string) [][2]string {
	n := int(notes[prefix+".n"].I)
	out := [][2]string{}
	for i := 0; i < n; i++ {
		out = append(out, [2]string{notes[fmt.Sprintf("%s.k%d", prefix, i)].S, notes[fmt.Sprintf("%s.v%d", prefix, i)].S})
	}
	return out
}

func attrsToJSON(as [][2]string) []interface{} {
	var out []interface{}
	for _, a := range as {
		out = append(out, []interface{}{a[0], a[1]})
	}
	if out == nil {
		out = []interface{}{}
	}
	return out
}

func decodeAttrs(v interface{}) [][2]string {
	out := [][2]string{}
	l, _ := v.([]interface{})
	for _, a := range l {
		kv, _ := a.([]interface{})
		if len(kv) == 2 {
			k, _ := kv[0].(string)
			val, _ := kv[1].(string)
			out = append(out, [2]string{k, val})
		}
	}
	return out
}

func attrsEqual(a, b [][2]string) bool {
	if len(a) != len(b) {
		return false
	}
	for i := range a {
		if a[i] != b[i] {
			return false
		}
	}
	return true
}

// ---- replayable URL shapes (witness refinement) -----------------------------
//
// For witness search only, URL strings are drawn from two simple shapes for
// which the A3 functions are fixed to what net/url really computes (checked
// natively at replay): an absolute http(s) URL with host and a rooted
// relative path.

var (
	reSimpleAbs = smt.Translate(`^https?://[a-z]{1,6}(/[a-z0-9]{0,6})?$`)
	reSimpleRel = smt.Translate(`^/[a-z0-9]{0,6}$`)
)

func simpleURLConstraint(u *smt.Term) *smt.Term {
	abs, rel := reSimpleAbs.Match(u), reSimpleRel.Match(u)
	ok := smt.UF("url.ok", smt.Bool, u)
	host := smt.UF("url.host", smt.String, u)
	scheme := smt.UF("url.scheme", smt.String, u)
	norm := smt.UF("url.norm", smt.String, u)
	return smt.And(smt.Or(abs, rel), ok, smt.Eq(norm, u),
		smt.Implies(abs, smt.And(smt.Not(smt.Eq(host, smt.StrC(""))), smt.Or(smt.Eq(scheme, smt.StrC("http")), smt.Eq(scheme, smt.StrC("https"))))),
		smt.Implies(rel, smt.And(smt.Eq(host, smt.StrC("")), smt.Eq(scheme, smt.StrC("")))))
}

// proveSummary validates spec as a summary of fn: fn is executed symbolically
// on args and on every path pc ⇒ (ret = spec) must hold. Returns ok, a
// description of the bound, and a counterexample (values of the variables in
// args) if the lemma fails.
func (c *Ctx) proveSummary(ev *Evidence, in *sym.Interp, fn string, args []sym.Value, spec *smt.Term, timeout time.Duration, label string) (bool, map[string]smt.ModelValue, error) {
	f := in.FindFunc(fn)
	if f == nil {
		return false, nil, nil
	}
	saved := in.Obligations
	in.Obligations = nil
	states, err := in.RunFrom(in.NewState(), f, args)
	in.Obligations = saved
	if err != nil {
		return false, nil, err
	}
	ev.Func(fn + " [summarised after lemma check]")
	for _, st := range states {
		switch st.Status {
		case sym.Cut:
			for _, a := range st.Assumed {
				ev.Outside(fmt.Sprintf("%s lemma: paths cut by bound '%s'", fn, a))
			}
			continue
		case sym.Finished:
		default:
			return false, nil, fmt.Errorf("%s: path ended with %s %s", fn, StatusName(st.Status), st.Reason)
		}
		ret, ok := st.Ret.(*smt.Term)
		if !ok {
			return false, nil, fmt.Errorf("%s does not return a scalar", fn)
		}
		as := append(append([]*smt.Term{}, st.PC...), smt.Not(smt.Eq(ret, spec)))
		as = sym.ProjectDecomps(as)
		full := smt.And(as...)
		if full.IsFalse() {
			continue
		}
		var vars []*smt.Term
		for _, a := range args {
			if t, ok := a.(*smt.Term); ok && t.Op == "var" {
				vars = append(vars, t)
			}
		}
		var r smt.Result
		q := &smt.Query{Name: label, Asserts: append([]*smt.Term{full}, sym.SideConditions([]*smt.Term{full})...), Values: vars, Timeout: timeout, Both: true, Grace: 300 * time.Millisecond}
		in.WithWorker(func(w *smt.Worker) { r = w.Check(q) })
		ev.Query(fmt.Sprintf("%s-p%d", label, st.ID), r)
		ev.AddTransitions(1)
		switch r.Status {
		case smt.Unknown:
			return false, nil, nil
		case smt.Sat:
			cex := map[string]smt.ModelValue{}
			for i, v := range vars {
				cex[v.Name] = r.Values[i]
			}
			return false, cex, nil
		}
	}
	return true, nil, nil
}

// replayBudget bounds the number of native replays (each costs a go test
// build): per signature and in total. What is skipped is reported.
type replayBudget struct {
	perSig  map[string]int
	total   int
	skipped int
}

func newReplayBudget() *replayBudget { return &replayBudget{perSig: map[string]int{}} }

func (b *replayBudget) allow(sig string) bool {
	if b.perSig[sig] >= 2 || b.total >= 10 {
		b.skipped++
		return false
	}
	b.perSig[sig]++
	b.total++
	return true
}

func (b *replayBudget) report(ev *Evidence, label string) {
	if b.skipped > 0 {
		ev.Inconclusive(fmt.Sprintf("%s: %d further solver counterexamples were not replayed (replay budget)", label, b.skipped))
	}
}

// runUnitObligations discharges the obligations of a unit harness as a
// stream: reach obligations are sampled (6 per id), undecided assertions are
// reported, satisfiable assertions go to onSat (which replays natively and
// returns a confirmed violation or nil). The run stops early once violations
// are confirmed and respects a time budget.
func (c *Ctx) runUnitObligations(ev *Evidence, ur *UnitRun, label string, timeout, grace time.Duration, onSat func(r UnitResult) (*Violation, error)) ([]Violation, map[string]int, error) {
	nReach := map[string]int{}
	reach := map[string]int{}
	var viols []Violation
	var firstErr error
	start := time.Now()
	budget := 8 * time.Minute
	if c.Tier == "thorough" {
		budget = 60 * time.Minute
	}
	nUnknown := 0
	skipped := dischargeStream(ur.In, ev, ur.Obs, func(ob *sym.Obligation) bool {
		if strings.HasPrefix(ob.ID, "C13-") != (label == "C13") {
			return false // shared-state assertions belong to the C13 check
		}
		if ob.Kind == "reach" {
			nReach[ob.ID]++
			return nReach[ob.ID] <= 6
		}
		return true
	}, timeout, grace, label, budget, func(r UnitResult) bool {
		if r.Ob.Kind == "reach" {
			if r.Res.Status == smt.Sat {
				reach[r.Ob.ID]++
			}
			return false
		}
		switch r.Res.Status {
		case smt.Unknown:
			nUnknown++
			if nUnknown <= 5 {
				ev.Inconclusive(fmt.Sprintf("%s obligation %s on path %d undecided: %s (choices %v)", label, r.Ob.ID, r.Ob.PathID, r.Res.Note, r.Ob.Ghost["trace"]))
			}
			return false
		case smt.Unsat:
			return false
		}
		v, err := onSat(r)
		if err != nil {
			firstErr = err
			return true
		}
		if v != nil {
			viols = append(viols, *v)
		}
		return len(viols) >= 3 || (len(viols) >= 1 && time.Since(start) > 45*time.Second)
	})
	if firstErr != nil {
		return nil, nil, firstErr
	}
	if nUnknown > 5 {
		ev.Inconclusive(fmt.Sprintf("%s: %d obligations undecided in total", label, nUnknown))
	}
	if skipped > 0 && len(viols) == 0 {
		ev.Inconclusive(fmt.Sprintf("%s: %d obligations not decided within the time budget", label, skipped))
	}
	return viols, reach, nil
}

// ---- ground refinement for URL strings -----------------------------------------
//
// A solver model over the uninterpreted A3 functions is made replayable by
// fixing the raw URL to a concrete candidate and asserting what net/url really
// computes for it (evaluated here, natively) as ground facts.

var urlCandidates = []string{
	"http://a/b", "/p", "p", "javascript:alert(1)", "http://a/b c", "mailto:x@y", "https://a.b/c?d=e#f", "//a/b",
	"JaVaScRiPt:x", "data:image/png;base64,AAAA", "data:text/html,<x>", " http://a/b ", "http://a/b\tc", "http://a/\nb",
	"vbscript:x", "", "   ", "http://[::1", "%zz", "ftp://h/p", "x:y", "HTTP://A/B", "data:image/png;base64,AA AA",
	"http:a/b", "https:a/b?c", "http://a/%", " //a/b", "\nhttp://a/b",
}

func groundURLFacts(s string, depth int) []*smt.Term {
	t := smt.StrC(s)
	var fs []*smt.Term
	u, err := url.Parse(s)
	fs = append(fs, smt.Eq(smt.UF("url.ok", smt.Bool, t), smt.BoolC(err == nil)))
	if err == nil {
		fs = append(fs,
			smt.Eq(smt.UF("url.scheme", smt.String, t), smt.StrC(u.Scheme)),
			smt.Eq(smt.UF("url.host", smt.String, t), smt.StrC(u.Host)),
			smt.Eq(smt.UF("url.opaque", smt.String, t), smt.StrC(u.Opaque)),
			smt.Eq(smt.UF("url.path", smt.String, t), smt.StrC(u.Path)),
			smt.Eq(smt.UF("url.rawquery", smt.String, t), smt.StrC(u.RawQuery)),
			smt.Eq(smt.UF("url.fragment", smt.String, t), smt.StrC(u.Fragment)),
			smt.Eq(smt.UF("url.norm", smt.String, t), smt.StrC(u.String())))
		if depth > 0 && u.String() != s {
			fs = append(fs, groundURLFacts(u.String(), depth-1)...)
		}
	}
	return fs
}

// urlCandidateFacts: raw = c plus ground facts for c, its trimmed form and
// their normal forms.
func urlCandidateFacts(raw *smt.Term, c string) []*smt.Term {
	fs := []*smt.Term{smt.Eq(raw, smt.StrC(c))}
	fs = append(fs, groundURLFacts(c, 1)...)
	if t := strings.TrimSpace(c); t != c {
		fs = append(fs, groundURLFacts(t, 1)...)
	}
	return fs
}
