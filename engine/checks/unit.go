package checks

import (
	"fmt"
	"os"
	"sort"
	"strings"
	"sync"
	"sync/atomic"
	"time"

	"bmsym/smt"
	"bmsym/sym"
)

// UnitRun is the result of exploring a unit harness (a harness that calls the
// function under analysis once with symbolic arguments and asserts an oracle).
type UnitRun struct {
	In     *sym.Interp
	States []*sym.State
	Obs    []*sym.Obligation
	Safety []*sym.Obligation
}

func (c *Ctx) exploreUnit(ev *Evidence, harness string, cfg sym.Config) (*UnitRun, error) {
	cfg.NoFeasCheck = true
	in, err := c.NewInterp(cfg)
	if err != nil {
		return nil, err
	}
	fn := in.FindFunc(harness)
	if fn == nil {
		in.Close()
		return nil, fmt.Errorf("harness %s not found", harness)
	}
	in.Obligations = nil
	states, err := in.RunFrom(in.NewState(), fn, nil)
	if err != nil {
		in.Close()
		return nil, err
	}
	ur := &UnitRun{In: in, States: states}
	cut := map[string]int{}
	for _, s := range states {
		switch s.Status {
		case sym.Unsupported:
			in.Close()
			return nil, fmt.Errorf("engine cannot execute a path of %s: %s", harness, s.Reason)
		case sym.Cut:
			for _, a := range s.Assumed {
				cut[a]++
			}
		}
	}
	for a, n := range cut {
		ev.Outside(fmt.Sprintf("%s: %d paths cut by bound '%s'", harness, n, a))
	}
	for _, ob := range in.Obligations {
		if ob.Kind == "safety" {
			ur.Safety = append(ur.Safety, ob)
		} else {
			ur.Obs = append(ur.Obs, ob)
		}
	}
	in.Obligations = nil
	ev.AddStates(len(states))
	c.Log("%s: %d paths, %d obligations, %d safety obligations", harness, len(states), len(ur.Obs), len(ur.Safety))
	return ur, nil
}

// noteTerms returns the harness notes of an obligation's path as terms.
func noteTerms(ob *sym.Obligation) map[string]*smt.Term {
	m := map[string]*smt.Term{}
	for k, v := range ob.Ghost {
		if strings.HasPrefix(k, "note:") {
			if t, ok := v.(*smt.Term); ok {
				m[strings.TrimPrefix(k, "note:")] = t
			}
		}
	}
	if l, ok := ob.Ghost["urlstubs"].([][3]*smt.Term); ok {
		for i, u := range l {
			m[fmt.Sprintf("urlstub%d.raw", i)] = u[0]
			m[fmt.Sprintf("urlstub%d.out", i)] = u[1]
			m[fmt.Sprintf("urlstub%d.ok", i)] = u[2]
		}
	}
	return m
}

// UnitResult of one obligation.
type UnitResult struct {
	Ob     *sym.Obligation
	Res    smt.Result
	Notes  map[string]smt.ModelValue
	UFVals map[string]smt.ModelValue // "@<app term>" -> value, plus argument values
	Terms  map[string]*smt.Term
}

// solveOb asks pc ∧ ¬cond (assert) or pc (reach), with optional extra
// constraints, and returns the values of the notes and of every UF
// application.
func solveOb(in *sym.Interp, ob *sym.Obligation, extra []*smt.Term, timeout, grace time.Duration, name string) UnitResult {
	var asserts []*smt.Term
	asserts = append(asserts, ob.PC...)
	if ob.Kind != "reach" {
		asserts = append(asserts, smt.Not(ob.Cond))
	}
	asserts = append(asserts, extra...)
	asserts = sym.ProjectDecomps(asserts)
	full := smt.And(asserts...)
	ur := UnitResult{Ob: ob}
	if full.IsFalse() {
		ur.Res = smt.Result{Status: smt.Unsat, Solver: "syntactic"}
		return ur
	}
	all := append([]*smt.Term{full}, sym.SideConditions([]*smt.Term{full})...)
	terms := map[string]*smt.Term{}
	for k, t := range noteTerms(ob) {
		terms["note:"+k] = t
	}
	for _, a := range all {
		smt.Walk(a, func(x *smt.Term) {
			if x.Op == "uf" && len(x.Args) > 0 && x.Sort != smt.RegLan {
				terms["@"+x.String()] = x
				for _, arg := range x.Args {
					if arg.Sort == smt.String || arg.Sort == smt.Int || arg.Sort == smt.Bool {
						terms["@"+arg.String()] = arg
					}
				}
			}
			if x.Op == "var" && (x.Sort == smt.String || x.Sort == smt.Int || x.Sort == smt.Bool) {
				terms["$"+x.Name] = x
			}
		})
	}
	var names []string
	for k := range terms {
		names = append(names, k)
	}
	sort.Strings(names)
	var vals []*smt.Term
	for _, n := range names {
		vals = append(vals, terms[n])
	}
	q := &smt.Query{Name: name, Asserts: all, Values: vals, Timeout: timeout, Both: true, Grace: grace}
	in.WithWorker(func(w *smt.Worker) { ur.Res = w.Check(q) })
	if ur.Res.Status == smt.Unknown {
		// Relaxation: drop every conjunct that mentions a variable introduced by
		// a relational library model (fresh, named "...!n"). Dropping conjuncts
		// only weakens the formula, so an unsat answer carries over.
		var keep []*smt.Term
		flat := full
		parts := []*smt.Term{flat}
		if flat.Op == "and" {
			parts = flat.Args
		}
		for _, p := range parts {
			fresh := false
			smt.Walk(p, func(x *smt.Term) {
				if x.Op == "var" && strings.Contains(x.Name, "!") {
					fresh = true
				}
			})
			if !fresh {
				keep = append(keep, p)
			}
		}
		if len(keep) > 0 && len(keep) < len(parts) {
			rel := smt.And(keep...)
			rq := &smt.Query{Name: name + "-relaxed", Asserts: append([]*smt.Term{rel}, sym.SideConditions([]*smt.Term{rel})...), Timeout: timeout, Both: true, Grace: grace}
			var rr smt.Result
			in.WithWorker(func(w *smt.Worker) { rr = w.Check(rq) })
			if rr.Status == smt.Unsat {
				rr.Note = "unsat of the relaxed formula (conjuncts over model-introduced variables dropped); " + rr.Note
				ur.Res = rr
			}
		}
	}
	if ur.Res.Status == smt.Sat {
		ur.Notes = map[string]smt.ModelValue{}
		ur.UFVals = map[string]smt.ModelValue{}
		ur.Terms = terms
		for i, n := range names {
			if strings.HasPrefix(n, "note:") {
				ur.Notes[strings.TrimPrefix(n, "note:")] = ur.Res.Values[i]
			} else {
				ur.UFVals[n] = ur.Res.Values[i]
			}
		}
	}
	return ur
}

// dischargeAll solves every obligation in parallel.
func dischargeAll(in *sym.Interp, ev *Evidence, obs []*sym.Obligation, filter func(*sym.Obligation) bool, timeout, grace time.Duration, label string) []UnitResult {
	var sel []*sym.Obligation
	for _, ob := range obs {
		if filter == nil || filter(ob) {
			sel = append(sel, ob)
		}
	}
	out := make([]UnitResult, len(sel))
	var doneCount int64
	var wg sync.WaitGroup
	for i, ob := range sel {
		wg.Add(1)
		go func(i int, ob *sym.Obligation) {
			defer wg.Done()
			out[i] = solveOb(in, ob, nil, timeout, grace, fmt.Sprintf("%s-%s-p%d", label, ob.ID, ob.PathID))
			if n := atomic.AddInt64(&doneCount, 1); n%200 == 0 && os.Getenv("BMSYM_PROGRESS") != "" {
				fmt.Fprintf(os.Stderr, "discharged %d/%d\n", n, len(sel))
			}
			if out[i].Res.Solver != "syntactic" {
				ev.Query(fmt.Sprintf("%s-%s-p%d", label, ob.ID, ob.PathID), out[i].Res)
			}
			ev.AddTransitions(1)
		}(i, ob)
	}
	wg.Wait()
	return out
}

// attrsFromNotes decodes "<prefix>.n", "<prefix>.k<i>", "<prefix>.v<i>".
func attrsFromNotes(notes map[string]smt.ModelValue, prefix string) [][2]string {
	n := int(notes[prefix+".n"].I)
	out := [][2]string{}
	for i := 0; i < n; i++ {
		out = append(out, [2]string{notes[fmt.Sprintf("%s.k%d", prefix, i)].S, notes[fmt.Sprintf("%s.v%d", prefix, i)].S})
	}
	return out
}

func attrsToJSON(as [][2]string) []interface{} {
	var out []interface{}
	for _, a := range as {
		out = append(out, []interface{}{a[0], a[1]})
	}
	if out == nil {
		out = []interface{}{}
	}
	return out
}

func decodeAttrs(v interface{}) [][2]string {
	out := [][2]string{}
	l, _ := v.([]interface{})
	for _, a := range l {
		kv, _ := a.([]interface{})
		if len(kv) == 2 {
			k, _ := kv[0].(string)
			val, _ := kv[1].(string)
			out = append(out, [2]string{k, val})
		}
	}
	return out
}

func attrsEqual(a, b [][2]string) bool {
	if len(a) != len(b) {
		return false
	}
	for i := range a {
		if a[i] != b[i] {
			return false
		}
	}
	return true
}

// ---- replayable URL shapes (witness refinement) -----------------------------
//
// For witness search only, URL strings are drawn from two simple shapes for
// which the A3 functions are fixed to what net/url really computes (checked
// natively at replay): an absolute http(s) URL with host and a rooted
// relative path.

var (
	reSimpleAbs = smt.Translate(`^https?://[a-z]{1,6}(/[a-z0-9]{0,6})?$`)
	reSimpleRel = smt.Translate(`^/[a-z0-9]{0,6}$`)
)

func simpleURLConstraint(u *smt.Term) *smt.Term {
	abs, rel := reSimpleAbs.Match(u), reSimpleRel.Match(u)
	ok := smt.UF("url.ok", smt.Bool, u)
	host := smt.UF("url.host", smt.String, u)
	scheme := smt.UF("url.scheme", smt.String, u)
	norm := smt.UF("url.norm", smt.String, u)
	return smt.And(smt.Or(abs, rel), ok, smt.Eq(norm, u),
		smt.Implies(abs, smt.And(smt.Not(smt.Eq(host, smt.StrC(""))), smt.Or(smt.Eq(scheme, smt.StrC("http")), smt.Eq(scheme, smt.StrC("https"))))),
		smt.Implies(rel, smt.And(smt.Eq(host, smt.StrC("")), smt.Eq(scheme, smt.StrC("")))))
}

// proveSummary validates spec as a summary of fn: fn is executed symbolically
// on args and on every path pc ⇒ (ret = spec) must hold. Returns ok, a
// description of the bound, and a counterexample (values of the variables in
// args) if the lemma fails.
func (c *Ctx) proveSummary(ev *Evidence, in *sym.Interp, fn string, args []sym.Value, spec *smt.Term, timeout time.Duration, label string) (bool, map[string]smt.ModelValue, error) {
	f := in.FindFunc(fn)
	if f == nil {
		return false, nil, nil
	}
	saved := in.Obligations
	in.Obligations = nil
	states, err := in.RunFrom(in.NewState(), f, args)
	in.Obligations = saved
	if err != nil {
		return false, nil, err
	}
	ev.Func(fn + " [summarised after lemma check]")
	for _, st := range states {
		switch st.Status {
		case sym.Cut:
			for _, a := range st.Assumed {
				ev.Outside(fmt.Sprintf("%s lemma: paths cut by bound '%s'", fn, a))
			}
			continue
		case sym.Finished:
		default:
			return false, nil, fmt.Errorf("%s: path ended with %s %s", fn, StatusName(st.Status), st.Reason)
		}
		ret, ok := st.Ret.(*smt.Term)
		if !ok {
			return false, nil, fmt.Errorf("%s does not return a scalar", fn)
		}
		as := append(append([]*smt.Term{}, st.PC...), smt.Not(smt.Eq(ret, spec)))
		as = sym.ProjectDecomps(as)
		full := smt.And(as...)
		if full.IsFalse() {
			continue
		}
		var vars []*smt.Term
		for _, a := range args {
			if t, ok := a.(*smt.Term); ok && t.Op == "var" {
				vars = append(vars, t)
			}
		}
		var r smt.Result
		q := &smt.Query{Name: label, Asserts: append([]*smt.Term{full}, sym.SideConditions([]*smt.Term{full})...), Values: vars, Timeout: timeout, Both: true, Grace: 300 * time.Millisecond}
		in.WithWorker(func(w *smt.Worker) { r = w.Check(q) })
		ev.Query(fmt.Sprintf("%s-p%d", label, st.ID), r)
		ev.AddTransitions(1)
		switch r.Status {
		case smt.Unknown:
			return false, nil, nil
		case smt.Sat:
			cex := map[string]smt.ModelValue{}
			for i, v := range vars {
				cex[v.Name] = r.Values[i]
			}
			return false, cex, nil
		}
	}
	return true, nil, nil
}
