package checks

import (
	"fmt"
	"strings"

	"bmsym/sym"
)

// C17: a policy is its rule set.
func runC17(c *Ctx, ev *Evidence) ([]Violation, error) {
	timeout, grace := unitTimeouts(c)
	ev.Func("every exported builder method of policy.go and helper of helpers.go, (*Policy).init, NewPolicy, UGCPolicy, StrictPolicy, addDefault*")
	ev.Bound("builder_calls", "case: one call of each name-taking builder with free names; order: every ordered pair of two rule-adding calls of the same kind with free (possibly aliasing) element and attribute names; switches: two consecutive calls with free arguments; independence: two policies from each constructor, the second extended through every builder")
	ev.Assume("strings.ToLower is an uninterpreted function with the ASCII axioms; rule identity is the identity of the *regexp.Regexp handed to Matching")
	ev.Outside("behavioural equality on inputs follows from table equality because sanitising reads the tables only (C13)")
	var viols []Violation
	for _, h := range []string{"HarnessC17_case", "HarnessC17_order", "HarnessC17_switches", "HarnessC17_independent"} {
		ur, err := c.exploreUnit(ev, h, sym.Config{})
		if err != nil {
			return nil, err
		}
		seen := map[string]bool{}
		v, _, err := c.runUnitObligations(ev, ur, "C17", timeout, grace, func(r UnitResult) (*Violation, error) {
			if seen[r.Ob.ID] {
				return nil, nil
			}
			seen[r.Ob.ID] = true
			vv, err := replayC17(c, ev, h, r)
			return vv, err
		})
		ur.In.Close()
		if err != nil {
			return nil, err
		}
		viols = append(viols, v...)
	}
	return viols, nil
}

// replayC17 confirms a builder counterexample through the public API: two
// policies that must be equivalent are compared on a probe document.
func replayC17(c *Ctx, ev *Evidence, harness string, r UnitResult) (*Violation, error) {
	str := func(n string) string { return r.UFVals["$"+n].S }
	probe := func(el, attr string) string {
		el, attr = strings.ToLower(el), strings.ToLower(attr)
		if el == "" {
			el = "x"
		}
		return fmt.Sprintf(`<%s %s="v" style="%s: v">t</%s><a href="%s:x">l</a>`, el, attr, attr, el, strings.ToLower(str("scheme")+str("name")))
	}
	var reqs []NativeReq
	var describe string
	id := r.Ob.ID
	switch {
	case strings.HasPrefix(id, "C17-case-"):
		name, attr := str("name"), str("attr")
		if name == strings.ToLower(name) && attr == strings.ToLower(attr) {
			name, attr = "DiV", "TiTle"
		}
		mk := func(n, a string) []NativeReq {
			switch int(r.Notes["builder"].I) {
			case 0:
				return []NativeReq{{"op": "base", "name": "New"}, {"op": "AllowElements", "names": []string{n}}}
			case 1:
				return []NativeReq{{"op": "base", "name": "New"}, {"op": "AllowAttrs", "attrs": []string{a}, "matching": "^v$", "elements": []string{n}}}
			case 2:
				return []NativeReq{{"op": "base", "name": "New"}, {"op": "AllowElements", "names": []string{strings.ToLower(n)}}, {"op": "AllowAttrs", "attrs": []string{a}, "matching": "^v$", "scope": "globally"}}
			case 3:
				return []NativeReq{{"op": "base", "name": "New"}, {"op": "AllowAttrs", "attrs": []string{a}, "matching": "^v$", "scope": "matching", "elre": "^" + strings.ToLower(n) + "$"}}
			case 4:
				return []NativeReq{{"op": "base", "name": "New"}, {"op": "AllowNoAttrs", "elements": []string{n}}}
			case 5:
				return []NativeReq{{"op": "base", "name": "New"}, {"op": "AllowAttrs", "attrs": []string{"style"}, "scope": "globally"}, {"op": "AllowStyles", "props": []string{a}, "kind": "regexp", "matching": "^v$", "elements": []string{n}}}
			case 6:
				return []NativeReq{{"op": "base", "name": "New"}, {"op": "AllowElements", "names": []string{strings.ToLower(n)}}, {"op": "AllowAttrs", "attrs": []string{"style"}, "scope": "globally"}, {"op": "AllowStyles", "props": []string{a}, "kind": "regexp", "matching": "^v$", "scope": "globally"}}
			case 7:
				return []NativeReq{{"op": "base", "name": "New"}, {"op": "AllowAttrs", "attrs": []string{"href"}, "elements": []string{"a"}}, {"op": "AllowURLSchemes", "schemes": []string{n}}}
			case 8:
				return []NativeReq{{"op": "base", "name": "New"}, {"op": "AllowAttrs", "attrs": []string{"href"}, "elements": []string{"a"}}, {"op": "AllowURLSchemeWithCustomPolicy", "scheme": n, "table": map[string]bool{strings.ToLower(n) + ":x": true}}}
			case 9:
				return []NativeReq{{"op": "base", "name": "New"}, {"op": "SkipElementsContent", "names": []string{n}}}
			default:
				return []NativeReq{{"op": "base", "name": "New"}, {"op": "SkipElementsContent", "names": []string{strings.ToLower(n)}}, {"op": "AllowElementsContent", "names": []string{n}}}
			}
		}
		in := probe(name, attr)
		reqs = []NativeReq{{"op": "sanitize", "policy": mk(name, attr), "input": in}, {"op": "sanitize", "policy": mk(strings.ToLower(name), strings.ToLower(attr)), "input": in}}
		describe = fmt.Sprintf("builder #%d with names %q/%q vs their lower-case forms", r.Notes["builder"].I, name, attr)
	case strings.HasPrefix(id, "C17-order-"), strings.HasPrefix(id, "C17-accumulate-"):
		// two overlapping rules for one attribute of one element, in both orders
		kind := int(r.Notes["kind"].I)
		if kind == 4 {
			// names grouped into one AllowElements call, then a rule for one of them
			grouped := []NativeReq{{"op": "base", "name": "New"}, {"op": "AllowElements", "names": []string{"x", "y"}}, {"op": "AllowAttrs", "attrs": []string{"k"}, "matching": "^one$", "elements": []string{"x"}}}
			apart := []NativeReq{{"op": "base", "name": "New"}, {"op": "AllowAttrs", "attrs": []string{"k"}, "matching": "^one$", "elements": []string{"x"}}, {"op": "AllowElements", "names": []string{"x"}}, {"op": "AllowElements", "names": []string{"y"}}}
			in := `<x k="one">a</x><y k="one">b</y>`
			reqs = []NativeReq{{"op": "sanitize", "policy": grouped, "input": in}, {"op": "sanitize", "policy": apart, "input": in}}
			nres, err := RunNative(c.Repo, c.VerifDir, reqs, "")
			if err != nil {
				return nil, err
			}
			o1, _ := nres[0]["output"].(string)
			o2, _ := nres[1]["output"].(string)
			ev.Sample(map[string]interface{}{"query": "C17 counterexample " + id, "what": "AllowElements(x, y) then a rule on x, against the same rules registered apart", "out1": o1, "out2": o2})
			if o1 != o2 {
				ev.AddReplayed(1)
				return &Violation{Sig: "site=builder " + id, Detail: fmt.Sprintf("the same rule set registered with grouped and with separate AllowElements calls gives %q and %q", o1, o2), Replay: reqs}, nil
			}
			ev.Inconclusive(fmt.Sprintf("C17: %s fails symbolically (grouped AllowElements) but the native probe agrees", id))
			return nil, nil
		}
		rule := func(val string) NativeReq {
			switch kind {
			case 1:
				return NativeReq{"op": "AllowAttrs", "attrs": []string{"k"}, "matching": "^" + val + "$", "scope": "globally"}
			case 2:
				return NativeReq{"op": "AllowStyles", "props": []string{"k"}, "kind": "regexp", "matching": "^" + val + "$", "elements": []string{"x"}}
			default:
				return NativeReq{"op": "AllowAttrs", "attrs": []string{"k"}, "matching": "^" + val + "$", "elements": []string{"x"}}
			}
		}
		base := []NativeReq{{"op": "base", "name": "New"}, {"op": "AllowElements", "names": []string{"x"}}, {"op": "AllowAttrs", "attrs": []string{"style"}, "scope": "globally"}}
		in := `<x k="one">a</x><x k="two">b</x><x style="k: one">c</x><x style="k: two">d</x>`
		p1 := append(append([]NativeReq{}, base...), rule("one"), rule("two"))
		p2 := append(append([]NativeReq{}, base...), rule("two"), rule("one"))
		reqs = []NativeReq{{"op": "sanitize", "policy": p1, "input": in}, {"op": "sanitize", "policy": p2, "input": in}}
		describe = fmt.Sprintf("two overlapping rules (kind %d) registered in either order", kind)
		nres, err := RunNative(c.Repo, c.VerifDir, reqs, "")
		if err != nil {
			return nil, err
		}
		o1, _ := nres[0]["output"].(string)
		o2, _ := nres[1]["output"].(string)
		want := "one"
		bad := o1 != o2 || !strings.Contains(o1, "one") || !strings.Contains(o1, "two")
		_ = want
		ev.Sample(map[string]interface{}{"query": "C17 counterexample " + id, "what": describe, "out1": o1, "out2": o2})
		if bad {
			ev.AddReplayed(1)
			return &Violation{Sig: "site=builder " + id, Detail: fmt.Sprintf("%s: outputs %q and %q (both rules must stay in force in both orders)", describe, o1, o2), Replay: reqs}, nil
		}
		ev.Inconclusive(fmt.Sprintf("C17: %s fails symbolically (%s) but the native probe sees both rules in force", id, describe))
		return nil, nil
	case strings.HasPrefix(id, "C17-switch-"):
		reqs = []NativeReq{
			{"op": "sanitize", "policy": []NativeReq{{"op": "base", "name": "UGC"}, {"op": "flag", "name": "RequireNoFollowOnLinks", "val": true}, {"op": "flag", "name": "RequireNoFollowOnLinks", "val": false},
				{"op": "flag", "name": "AddSpaceWhenStrippingTag", "val": false}, {"op": "flag", "name": "AddSpaceWhenStrippingTag", "val": true},
				{"op": "SkipElementsContent", "names": []string{"b"}}, {"op": "AllowElementsContent", "names": []string{"B"}},
				{"op": "AllowURLSchemeWithCustomPolicy", "scheme": "ftp", "table": map[string]bool{}}, {"op": "AllowURLSchemes", "schemes": []string{"FTP"}}},
				"input": `<a href="ftp://h/p">l</a><x>y</x><b>z</b>`},
		}
		nres, err := RunNative(c.Repo, c.VerifDir, reqs, "")
		if err != nil {
			return nil, err
		}
		o, _ := nres[0]["output"].(string)
		want := `<a href="ftp://h/p">l</a> y <b>z</b>`
		ev.Sample(map[string]interface{}{"query": "C17 counterexample " + id, "output": o, "want": want})
		if o != want {
			ev.AddReplayed(1)
			return &Violation{Sig: "site=builder " + id, Detail: fmt.Sprintf("last-call-wins probe: got %q, want %q", o, want), Replay: reqs}, nil
		}
		ev.Inconclusive(fmt.Sprintf("C17: %s fails symbolically but the native last-call-wins probe passes", id))
		return nil, nil
	default:
		ev.Inconclusive(fmt.Sprintf("C17: %s fails symbolically in %s; no native replay is implemented for this assertion", id, harness))
		return nil, nil
	}
	nres, err := RunNative(c.Repo, c.VerifDir, reqs, "")
	if err != nil {
		return nil, err
	}
	o1, _ := nres[0]["output"].(string)
	o2, _ := nres[1]["output"].(string)
	ev.Sample(map[string]interface{}{"query": "C17 counterexample " + id, "what": describe, "out1": o1, "out2": o2})
	if o1 != o2 {
		ev.AddReplayed(1)
		return &Violation{Sig: "site=builder " + id, Detail: fmt.Sprintf("%s: outputs differ: %q vs %q", describe, o1, o2), Replay: reqs}, nil
	}
	ev.Inconclusive(fmt.Sprintf("C17: %s fails symbolically (%s) but the native probe sees equal outputs", id, describe))
	return nil, nil
}
