package checks

import (
	"fmt"
	"html"
	"sort"
	"strings"
	"sync"
	"time"

	"bmsym/smt"
	"bmsym/sym"
)

// PolicySyms are the symbols of the harness policy (harness/root/loop.go),
// recovered from the extracted paths by naming convention.
type PolicySyms struct {
	Els, Skip, Bare []*smt.Term
	ElRe, BareRe    []string
	AddSpaces       *smt.Term
	AllowComments   *smt.Term
	AllowUnsafe     *smt.Term
}

func collectPolicySyms(t *TRel) *PolicySyms {
	ps := &PolicySyms{AddSpaces: smt.Var("p.addSpaces", smt.Bool), AllowComments: smt.Var("p.allowComments", smt.Bool), AllowUnsafe: smt.Var("p.allowUnsafe", smt.Bool)}
	vars := map[string]*smt.Term{}
	ufs := map[string]bool{}
	for _, p := range t.Paths {
		smt.Walk(p.PC, func(x *smt.Term) {
			if x.Op == "var" && strings.HasPrefix(x.Name, "p.") {
				vars[x.Name] = x
			}
			if x.Op == "uf" && strings.HasPrefix(x.Name, "match.p.") {
				ufs[x.Name] = true
			}
		})
	}
	var names []string
	for n := range vars {
		names = append(names, n)
	}
	sort.Strings(names)
	for _, n := range names {
		switch {
		case strings.HasPrefix(n, "p.el"):
			ps.Els = append(ps.Els, vars[n])
		case strings.HasPrefix(n, "p.skip"):
			ps.Skip = append(ps.Skip, vars[n])
		case strings.HasPrefix(n, "p.bare"):
			ps.Bare = append(ps.Bare, vars[n])
		}
	}
	names = names[:0]
	for n := range ufs {
		names = append(names, n)
	}
	sort.Strings(names)
	for _, n := range names {
		switch {
		case strings.HasPrefix(n, "match.p.elre"):
			ps.ElRe = append(ps.ElRe, n)
		case strings.HasPrefix(n, "match.p.barere"):
			ps.BareRe = append(ps.BareRe, n)
		}
	}
	return ps
}

// Allowed is the statement's "allowed by name or by pattern".
func (ps *PolicySyms) Allowed(name *smt.Term) *smt.Term {
	var ds []*smt.Term
	for _, e := range ps.Els {
		ds = append(ds, smt.Eq(name, e))
	}
	for _, r := range ps.ElRe {
		ds = append(ds, smt.UF(r, smt.Bool, name))
	}
	return smt.Or(ds...)
}
func (ps *PolicySyms) AllowedExplicit(name *smt.Term) *smt.Term {
	var ds []*smt.Term
	for _, e := range ps.Els {
		ds = append(ds, smt.Eq(name, e))
	}
	return smt.Or(ds...)
}
func (ps *PolicySyms) InSkip(name *smt.Term) *smt.Term {
	var ds []*smt.Term
	for _, e := range ps.Skip {
		ds = append(ds, smt.Eq(name, e))
	}
	return smt.Or(ds...)
}
func (ps *PolicySyms) BareOK(name *smt.Term) *smt.Term {
	var ds []*smt.Term
	for _, e := range ps.Bare {
		ds = append(ds, smt.Eq(name, e))
	}
	for _, r := range ps.BareRe {
		ds = append(ds, smt.UF(r, smt.Bool, name))
	}
	return smt.Or(ds...)
}

// Builder-API well-formedness of the policy tables: keys are lower-case
// (every builder lower-cases its arguments).
func (ps *PolicySyms) WellFormed() *smt.Term {
	var cs []*smt.Term
	noUpper := smt.Translate(`^[^A-Z]*$`)
	for _, l := range [][]*smt.Term{ps.Els, ps.Skip, ps.Bare} {
		for _, v := range l {
			cs = append(cs, noUpper.Match(v))
		}
	}
	return smt.And(cs...)
}

func isTag(k *smt.Term) *smt.Term {
	return smt.Or(smt.Eq(k, smt.IntC(2)), smt.Eq(k, smt.IntC(3)), smt.Eq(k, smt.IntC(4)))
}
func kindIs(k *smt.Term, n int) *smt.Term { return smt.Eq(k, smt.IntC(int64(n))) }
func oneOf(x *smt.Term, names ...string) *smt.Term {
	var ds []*smt.Term
	for _, n := range names {
		ds = append(ds, smt.Eq(x, smt.StrC(n)))
	}
	return smt.Or(ds...)
}

var rawTextTags = []string{"script", "style", "iframe", "noembed", "noframes", "noscript", "plaintext", "textarea", "title", "xmp"}

// a1RawText is the part of the token contract A1 that relates consecutive
// tokens: after a start or self-closing tag of a raw-text / RCDATA element the
// tokenizer delivers the body as one text token, then the matching end tag.
func a1RawText(steps []*StepVars) *smt.Term {
	var cs []*smt.Term
	for j := 0; j+1 < len(steps); j++ {
		a, b := steps[j], steps[j+1]
		raw := smt.And(smt.Or(kindIs(a.Kind, 2), kindIs(a.Kind, 4)), oneOf(a.Data, rawTextTags...))
		closes := func(x *StepVars) *smt.Term { return smt.And(kindIs(x.Kind, 3), smt.Eq(x.Data, a.Data)) }
		eof := func(x *StepVars) *smt.Term { return kindIs(x.Kind, 0) }
		cs = append(cs, smt.Implies(raw, smt.Or(kindIs(b.Kind, 1), closes(b), eof(b))))
		if j+2 < len(steps) {
			c := steps[j+2]
			cs = append(cs, smt.Implies(smt.And(raw, kindIs(b.Kind, 1)), smt.Or(closes(c), eof(c))))
		}
	}
	return smt.And(cs...)
}

// LoopRun bundles the extracted relation for one harness variant.
type LoopRun struct {
	InputSuffix string // appended to every witness input before it is replayed
	// Sub, when set, yields a substitution applied to every query (and to the
	// terms whose values are requested) before it is sent.
	Sub   func(full *smt.Term) map[*smt.Term]*smt.Term
	In    *sym.Interp
	Steps *Steps
	T     *TRel
	PS    *PolicySyms
}

func (c *Ctx) loopSetup(ev *Evidence, harness string, maxAttrs int, names ...string) (*LoopRun, error) {
	in, err := c.NewInterp(sym.Config{MaxAttrs: maxAttrs, TokenNames: names, NoFeasCheck: true, MaxStates: 120000, UnwindSym: 4, Stubs: map[string]string{sanitizeAttrsFn: "stubSanitizeAttrs"}})
	if err != nil {
		return nil, err
	}
	steps, err := c.ExtractSteps(in, harness, nil)
	if err != nil {
		in.Close()
		return nil, err
	}
	for _, o := range steps.Other {
		if o.Status == sym.Unsupported {
			in.Close()
			return nil, fmt.Errorf("engine cannot execute a path of the token loop: %s", o.Reason)
		}
	}
	feasTimeout := 10 * time.Second
	if c.SkipStepFeas {
		feasTimeout = 0
	}
	t, err := c.BuildTRel(steps, feasTimeout)
	if err != nil {
		in.Close()
		return nil, err
	}
	t.MaxAttrs = maxAttrs
	ev.AddStates(len(t.Paths))
	ev.Func("(*Policy).sanitize [token loop body, loop state havocked]", "(*Policy).matchRegex", "(*Policy).allowNoAttrs", "normaliseElementName", "(*Policy).init", "(*asStringWriter).WriteString")
	ev.Bound("token_attrs_max", maxAttrs)
	if len(names) > 0 {
		ev.Bound("element_names", fmt.Sprintf("drawn from %q (generic names plus the literals the code and the monitors distinguish); the loop and the monitors use names only in equality tests, table lookups and opaque pattern predicates", names))
	} else {
		ev.Bound("element_names", "arbitrary strings satisfying the token contract")
	}
	ev.Bound("policy_tables", "explicit elements<=2, element patterns<=2, bare patterns<=2 (each implied by the element pattern of the same index), skip-content entries<=2, bare entries<=2; all keys, patterns and switches symbolic")
	ev.Bound("step_paths_syntactic", len(steps.Paths))
	ev.Bound("step_paths_feasible", len(t.Paths))
	ev.Assume("A1 token contract: tag names are non-empty, lower-case ASCII without white space, '/' or '>' and start with a letter; attribute keys likewise; text tokens are non-empty; the serialiser/tokeniser round trip is exact (Token.String is an uninterpreted injective-by-construction symbol)",
		"(*Policy).sanitizeAttrs is replaced by a stub returning an arbitrary attribute list (0 or 1 attribute of arbitrary content); its real behaviour is the subject of C02/C03/C07/C10-C12",
		"policy table keys are lower-case (every builder method lower-cases its arguments)")
	if t.Unknown > 0 {
		// keeping a path whose feasibility the solvers did not decide only adds
		// behaviours: "holds" verdicts stay sound, and every counterexample is
		// replayed natively before it is reported
		ev.Bound("step_paths_feasibility_undecided_kept", t.Unknown)
	}
	return &LoopRun{In: in, Steps: steps, T: t, PS: collectPolicySyms(t)}, nil
}

func (lr *LoopRun) grace(timeout time.Duration) time.Duration {
	g := timeout / 4
	if g > 8*time.Second {
		g = 8 * time.Second
	}
	return g
}

// solve runs one query built from terms (adds side conditions).
func (lr *LoopRun) solve(name string, asserts []*smt.Term, values []*smt.Term, timeout time.Duration) smt.Result {
	full := smt.And(asserts...)
	if lr.Sub != nil {
		if sub := lr.Sub(full); len(sub) > 0 {
			full = smt.Subst(full, sub)
			nv := make([]*smt.Term, len(values))
			for i, v := range values {
				nv[i] = smt.Subst(v, sub)
			}
			values = nv
		}
	}
	// propagate top-level equalities variable = constant through the formula
	// (folds string operations on fixed token data before the solver sees them)
	for round := 0; round < 3 && full.Op == "and"; round++ {
		sub := map[*smt.Term]*smt.Term{}
		for _, cj := range full.Args {
			if cj.Op == "=" {
				a, b := cj.Args[0], cj.Args[1]
				if a.Op == "var" && b.IsConst() {
					sub[a] = b
				} else if b.Op == "var" && a.IsConst() {
					sub[b] = a
				}
			}
		}
		if len(sub) == 0 {
			break
		}
		var eqs []*smt.Term
		for v, c := range sub {
			eqs = append(eqs, smt.App("=", smt.Bool, v, c))
		}
		n := smt.And(append(eqs, smt.Subst(full, sub))...)
		if n == full {
			break
		}
		full = n
	}
	if full.IsFalse() {
		return smt.Result{Status: smt.Unsat, Solver: "syntactic"}
	}
	as := append([]*smt.Term{full}, sym.SideConditions([]*smt.Term{full})...)
	var r smt.Result
	lr.In.WithWorker(func(w *smt.Worker) {
		r = w.Check(&smt.Query{Name: name, Asserts: as, Values: values, Timeout: timeout, Both: true, Grace: lr.grace(timeout)})
	})
	return r
}

// ---- witnesses: token sequences from Init, replayed through Policy.Sanitize

type seqToken struct {
	Kind    int
	Data    string
	NAttr   int
	Survive bool
	Sel     int
}

type seqWitness struct {
	Tokens []seqToken
	Els    []string
	Skip   []string
	Bare   []string
	ElRe   []map[string]bool
	BareRe []map[string]bool
	Flags  map[string]bool
}

// witnessValues lists the terms whose model values define a witness.
func (lr *LoopRun) witnessValues(steps []*StepVars, formula *smt.Term) []*smt.Term {
	var vals []*smt.Term
	for _, sv := range steps {
		vals = append(vals, sv.Sel, sv.Kind, sv.Data, sv.NAttr, sv.Survive)
	}
	ps := lr.PS
	vals = append(vals, ps.Els...)
	vals = append(vals, ps.Skip...)
	vals = append(vals, ps.Bare...)
	vals = append(vals, ps.AddSpaces, ps.AllowComments, ps.AllowUnsafe)
	// pattern tables: value of every pattern on every token name
	for _, sv := range steps {
		for _, r := range ps.ElRe {
			vals = append(vals, smt.UF(r, smt.Bool, sv.Data))
		}
		for _, r := range ps.BareRe {
			vals = append(vals, smt.UF(r, smt.Bool, sv.Data))
		}
	}
	return vals
}

func (lr *LoopRun) decodeWitness(steps []*StepVars, mv []smt.ModelValue) *seqWitness {
	w := &seqWitness{Flags: map[string]bool{}}
	i := 0
	for range steps {
		w.Tokens = append(w.Tokens, seqToken{Sel: int(mv[i].I), Kind: int(mv[i+1].I), Data: mv[i+2].S, NAttr: int(mv[i+3].I), Survive: mv[i+4].B})
		i += 5
	}
	ps := lr.PS
	for range ps.Els {
		w.Els = append(w.Els, mv[i].S)
		i++
	}
	for range ps.Skip {
		w.Skip = append(w.Skip, mv[i].S)
		i++
	}
	for range ps.Bare {
		w.Bare = append(w.Bare, mv[i].S)
		i++
	}
	w.Flags["addSpaces"], w.Flags["allowComments"], w.Flags["allowUnsafe"] = mv[i].B, mv[i+1].B, mv[i+2].B
	i += 3
	w.ElRe = make([]map[string]bool, len(ps.ElRe))
	w.BareRe = make([]map[string]bool, len(ps.BareRe))
	for k := range w.ElRe {
		w.ElRe[k] = map[string]bool{}
	}
	for k := range w.BareRe {
		w.BareRe[k] = map[string]bool{}
	}
	for _, t := range w.Tokens {
		for k := range ps.ElRe {
			if mv[i].B {
				w.ElRe[k][t.Data] = true
			}
			i++
		}
		for k := range ps.BareRe {
			if mv[i].B {
				w.BareRe[k][t.Data] = true
			}
			i++
		}
	}
	return w
}

func (w *seqWitness) allowed(name string) bool {
	for _, e := range w.Els {
		if e == name {
			return true
		}
	}
	for _, t := range w.ElRe {
		if t[name] {
			return true
		}
	}
	// a bare pattern is registered through AllowNoAttrs().OnElementsMatching,
	// which also makes it an element pattern
	for _, t := range w.BareRe {
		if t[name] {
			return true
		}
	}
	return false
}

func (w *seqWitness) inSkip(name string) bool {
	for _, e := range w.Skip {
		if e == name {
			return true
		}
	}
	return false
}

// policyDSL builds the witness policy through the exported builder API,
// starting from the zero Policy (no default tables).
func (w *seqWitness) policyDSL() []NativeReq {
	ops := []NativeReq{{"op": "base", "name": "Zero"}}
	// a name that is on the allowed-without-attributes table without being
	// allowed can only come from NewPolicy()'s defaults
	defaultBareCache.Lock()
	for _, b := range w.Bare {
		if b != "" && !w.allowed(b) {
			for _, d := range defaultBareCache.names {
				if d == b {
					ops[0] = NativeReq{"op": "base", "name": "New"}
				}
			}
		}
	}
	defaultBareCache.Unlock()
	if len(w.Els) > 0 {
		ops = append(ops, NativeReq{"op": "AllowElements", "names": w.Els})
	}
	tab := func(t map[string]bool) map[string]bool {
		o := map[string]bool{}
		for k, v := range t {
			o[k] = v
		}
		return o
	}
	for _, t := range w.ElRe {
		if len(t) > 0 {
			ops = append(ops, NativeReq{"op": "AllowElementsMatching", "re_table": tab(t)})
		}
	}
	for _, t := range w.BareRe {
		if len(t) > 0 {
			ops = append(ops, NativeReq{"op": "AllowNoAttrs", "scope": "matching", "elre_table": tab(t)})
		}
	}
	var bare []string
	for _, b := range w.Bare {
		if w.allowed(b) {
			bare = append(bare, b)
		}
	}
	if len(bare) > 0 {
		ops = append(ops, NativeReq{"op": "AllowNoAttrs", "scope": "elements", "elements": bare})
	}
	if len(w.Skip) > 0 {
		ops = append(ops, NativeReq{"op": "SkipElementsContent", "names": w.Skip})
	}
	ops = append(ops, NativeReq{"op": "AllowAttrs", "attrs": []string{"keep"}, "scope": "globally"})
	if w.Flags["addSpaces"] {
		ops = append(ops, NativeReq{"op": "flag", "name": "AddSpaceWhenStrippingTag", "val": true})
	}
	if w.Flags["allowComments"] {
		ops = append(ops, NativeReq{"op": "flag", "name": "AllowComments", "val": true})
	}
	if w.Flags["allowUnsafe"] {
		ops = append(ops, NativeReq{"op": "flag", "name": "AllowUnsafe", "val": true})
	}
	return ops
}

// html renders the witness tokens; ok is false when a token cannot be
// rendered so that the real tokenizer reads it back identically.
func (w *seqWitness) html() (string, bool) {
	var sb strings.Builder
	for _, t := range w.Tokens {
		attr := ""
		if t.NAttr > 0 {
			if t.Survive {
				attr = ` keep="1"`
			} else {
				attr = ` drop="1"`
			}
		}
		switch t.Kind {
		case 0:
			return sb.String(), true // error token ends the input
		case 1:
			if t.Data == "" {
				return "", false
			}
			// a carriage return must be written as a character reference: a raw CR
			// is turned into LF by the tokenizer
			sb.WriteString(strings.ReplaceAll(html.EscapeString(t.Data), "\r", "&#13;"))
		case 2:
			sb.WriteString("<" + t.Data + attr + ">")
		case 3:
			sb.WriteString("</" + t.Data + ">")
		case 4:
			sb.WriteString("<" + t.Data + attr + "/>")
		case 5:
			if strings.Contains(t.Data, "--") || strings.HasPrefix(t.Data, ">") || strings.HasSuffix(t.Data, "-") {
				return "", false
			}
			sb.WriteString("<!--" + t.Data + "-->")
		case 6:
			if strings.ContainsAny(t.Data, "<>") {
				return "", false
			}
			sb.WriteString("<!DOCTYPE " + t.Data + ">")
		}
	}
	return sb.String(), true
}

func (w *seqWitness) describe() string {
	h, _ := w.html()
	return fmt.Sprintf("input=%q els=%q skip=%q bare=%q elre=%v barere=%v flags=%v", h, w.Els, w.Skip, w.Bare, w.ElRe, w.BareRe, w.Flags)
}

type nativeTok struct {
	Type  string
	Data  string
	Attrs [][2]string
}

func decodeTokens(v interface{}) []nativeTok {
	var out []nativeTok
	l, _ := v.([]interface{})
	for _, x := range l {
		m, _ := x.(map[string]interface{})
		t := nativeTok{}
		t.Type, _ = m["type"].(string)
		t.Data, _ = m["data"].(string)
		if al, ok := m["attrs"].([]interface{}); ok {
			for _, a := range al {
				kv, _ := a.([]interface{})
				if len(kv) == 2 {
					k, _ := kv[0].(string)
					v, _ := kv[1].(string)
					t.Attrs = append(t.Attrs, [2]string{k, v})
				}
			}
		}
		out = append(out, t)
	}
	return out
}

// tokensMatch checks that the real tokenizer read the rendered witness back as
// the witness tokens (contract A1 on this input).
func (w *seqWitness) tokensMatch(in []nativeTok) bool {
	var want []seqToken
	for _, t := range w.Tokens {
		if t.Kind == 0 {
			break
		}
		want = append(want, t)
	}
	// adjacent text tokens merge
	var merged []seqToken
	for _, t := range want {
		if t.Kind == 1 && len(merged) > 0 && merged[len(merged)-1].Kind == 1 {
			merged[len(merged)-1].Data += t.Data
			continue
		}
		merged = append(merged, t)
	}
	if len(merged) != len(in) {
		return false
	}
	for i, t := range merged {
		if tokenKindName(t.Kind) != in[i].Type || t.Data != in[i].Data {
			return false
		}
	}
	return true
}

func tokenKindName(k int) string {
	return [...]string{"Error", "Text", "StartTag", "EndTag", "SelfClosing", "Comment", "Doctype"}[k]
}

// searchWitness unrolls the relation from the initial state for k = 1..maxK
// and asks for a token sequence whose last step satisfies viol; each model is
// replayed through Policy.Sanitize and judged by the native oracle.
func (c *Ctx) searchWitness(lr *LoopRun, ev *Evidence, label string, maxK int, assume func(steps []*StepVars) *smt.Term, viol func(steps []*StepVars) *smt.Term,
	oracle func(w *seqWitness, res map[string]interface{}) (bool, string), timeout time.Duration, block func(steps []*StepVars, w *seqWitness) *smt.Term, maxModels int) (found []*seqWitness, details []string, replays [][]NativeReq, err error) {
	ps := lr.PS
	for k := 1; k <= maxK; k++ {
		steps := lr.T.Unroll(k, lr.T.InitState())
		var base []*smt.Term
		for _, sv := range steps {
			base = append(base, sv.Formula)
			base = append(base, smt.Not(sv.Failed))
		}
		for _, sv := range steps[:k-1] {
			base = append(base, smt.Not(sv.Returned))
		}
		base = append(base, ps.WellFormed(), a1RawText(steps))
		// witnesses are built through the builder API: an element is on the
		// allowed-without-attributes table only if it is allowed, or is one of the
		// defaults every policy starts with
		if defs := c.defaultBare(); len(defs) > 0 {
			for _, b := range ps.Bare {
				base = append(base, smt.Or(ps.Allowed(b), oneOf(b, defs...), smt.Eq(b, smt.StrC(""))))
			}
		}
		if assume != nil {
			base = append(base, assume(steps))
		}
		base = append(base, viol(steps))
		var blocks []*smt.Term
		for m := 0; m < maxModels; m++ {
			as := append(append([]*smt.Term{}, base...), blocks...)
			vals := lr.witnessValues(steps, nil)
			r := lr.solve(fmt.Sprintf("%s-witness-k%d-m%d", label, k, m), as, vals, timeout)
			ev.Query(fmt.Sprintf("%s-witness-k%d-m%d", label, k, m), r)
			ev.AddTransitions(len(lr.T.Paths) * k)
			if r.Status == smt.Unknown {
				ev.Inconclusive(fmt.Sprintf("%s: witness search at k=%d undecided (%s)", label, k, r.Note))
				break
			}
			if r.Status == smt.Unsat {
				break
			}
			w := lr.decodeWitness(steps, r.Values)
			input, ok := w.html()
			if !ok {
				blocks = append(blocks, smt.Not(smt.Eq(steps[k-1].Data, smt.StrC(w.Tokens[k-1].Data))))
				continue
			}
			input += lr.InputSuffix
			req := NativeReq{"op": "sanitize", "policy": w.policyDSL(), "input": input}
			res, nerr := RunNative(c.Repo, c.VerifDir, []NativeReq{req}, "")
			if nerr != nil {
				return nil, nil, nil, nerr
			}
			if _, panicked := res[0]["panic"]; !panicked && !w.tokensMatch(decodeTokens(res[0]["in_tokens"])) {
				// the rendered input is not read back as the model's tokens: exclude these names and retry
				ev.Sample(map[string]interface{}{"query": label, "note": "witness input not tokenised as modelled; blocked", "input": input})
				var ds []*smt.Term
				for j, sv := range steps {
					ds = append(ds, smt.Not(smt.Eq(sv.Data, smt.StrC(w.Tokens[j].Data))))
				}
				blocks = append(blocks, smt.Or(ds...))
				continue
			}
			bad, why := oracle(w, res[0])
			ev.Sample(map[string]interface{}{"query": label, "k": k, "witness": w.describe(), "output": res[0]["output"], "violates_natively": bad})
			if bad {
				ev.AddReplayed(1)
				found = append(found, w)
				details = append(details, fmt.Sprintf("%s; output=%q; %s", w.describe(), res[0]["output"], why))
				replays = append(replays, []NativeReq{req})
				if block == nil {
					return
				}
				blocks = append(blocks, block(steps, w))
				continue
			}
			// model did not reproduce: exclude and retry
			var ds []*smt.Term
			for j, sv := range steps {
				ds = append(ds, smt.Not(smt.Eq(sv.Sel, smt.IntC(int64(w.Tokens[j].Sel)))))
			}
			blocks = append(blocks, smt.Or(ds...))
			c.Log("%s: model at k=%d did not reproduce natively: %s -> %v", label, k, w.describe(), res[0]["output"])
		}
		if len(found) > 0 && block == nil {
			return
		}
	}
	return
}

var defaultBareCache struct {
	sync.Mutex
	done  bool
	names []string
}

// defaultBare asks the real code for the default allowed-without-attributes table.
func (c *Ctx) defaultBare() []string {
	defaultBareCache.Lock()
	defer defaultBareCache.Unlock()
	if defaultBareCache.done {
		return defaultBareCache.names
	}
	defaultBareCache.done = true
	res, err := RunNative(c.Repo, c.VerifDir, []NativeReq{{"op": "defaultBare"}}, "")
	if err != nil || len(res) == 0 {
		c.Log("defaultBare: native query failed: %v", err)
		return nil
	}
	if e, ok := res[0]["error"]; ok {
		c.Log("defaultBare: %v", e)
	}
	if e, ok := res[0]["panic"]; ok {
		c.Log("defaultBare: panic %v", e)
	}
	if l, ok := res[0]["names"].([]interface{}); ok {
		for _, x := range l {
			if s, ok := x.(string); ok {
				defaultBareCache.names = append(defaultBareCache.names, s)
			}
		}
	}
	c.Log("defaultBare: %d names from the real table", len(defaultBareCache.names))
	return defaultBareCache.names
}
