package checks

import (
	"fmt"
	"strings"
	"time"

	"bmsym/smt"
)

func loopTimeouts(c *Ctx) (q time.Duration, k int, attrs int) {
	if c.Tier == "thorough" {
		return 120 * time.Second, 4, 2
	}
	return 30 * time.Second, 3, 1
}

// inductive asks whether one step from an arbitrary loop state (optionally
// constrained by inv) can satisfy viol.
func (lr *LoopRun) inductive(name string, inv func(pre map[string]interface{}) *smt.Term, extra func(sv *StepVars) *smt.Term, viol func(sv *StepVars) *smt.Term, timeout time.Duration) (smt.Result, *StepVars) {
	pre := stateVars(lr.T, "pre.")
	sv := lr.T.Instance(0, pre)
	as := []*smt.Term{sv.Formula, lr.PS.WellFormed(), smt.Not(sv.Failed)}
	if extra != nil {
		as = append(as, extra(sv))
	}
	as = append(as, viol(sv))
	vals := []*smt.Term{sv.Sel, sv.Kind, sv.Data}
	return lr.solve(name, as, vals, timeout), sv
}

// C01: only allowlisted elements reach the output.
func (lr *LoopRun) c01Viol(sv *StepVars) *smt.Term {
	ps := lr.PS
	return smt.Or(
		smt.And(sv.RawWrite, smt.Not(smt.And(kindIs(sv.Kind, 1), sv.RawIsText))),
		smt.And(sv.Space, smt.Not(ps.AddSpaces)),
		smt.And(sv.Written, isTag(sv.Kind), smt.Not(ps.Allowed(sv.Data))),
		smt.And(sv.Written, kindIs(sv.Kind, 5), smt.Not(ps.AllowComments)),
		smt.And(sv.Written, smt.Or(kindIs(sv.Kind, 6), kindIs(sv.Kind, 0))),
	)
}

func runC01(c *Ctx, ev *Evidence) ([]Violation, error) {
	timeout, maxK, attrs := loopTimeouts(c)
	lr, err := c.loopSetup(ev, "HarnessLoop_step", attrs)
	if err != nil {
		return nil, err
	}
	defer lr.In.Close()
	ps := lr.PS
	ev.Bound("history", "unbounded (one inductive step from an arbitrary loop state; no invariant needed)")
	ev.Assume("A2: an HTML5 tree builder creates elements only for start tags of the token stream (plus implied wrappers)")
	notUnsafe := smt.Not(ps.AllowUnsafe)
	r, _ := lr.inductive("C01-inductive", nil, func(sv *StepVars) *smt.Term { return notUnsafe }, lr.c01Viol, timeout)
	ev.Query("C01-inductive", r)
	ev.AddTransitions(len(lr.T.Paths))
	ev.Sample(map[string]interface{}{"query": "C01-inductive: arbitrary state, one token, some write is not an allowlisted tag / allowed comment / escaped text / strip space", "verdict": r.Status.String(), "solver": r.Solver, "seconds": r.Seconds, "paths": len(lr.T.Paths)})
	// vacuity: a tag can be written at all
	rv, _ := lr.inductive("C01-reach-tag-written", nil, nil, func(sv *StepVars) *smt.Term { return smt.And(sv.Written, kindIs(sv.Kind, 2)) }, timeout)
	ev.Query("C01-reach", rv)
	if rv.Status != smt.Sat {
		ev.Inconclusive("vacuity witness 'a start tag is written' is not satisfiable: " + rv.Status.String())
	}
	switch r.Status {
	case smt.Unsat:
		return nil, nil
	case smt.Unknown:
		ev.Inconclusive("C01 inductive query undecided: " + r.Note)
		return nil, nil
	}
	// sat: look for a replayable witness from the initial state
	found, details, replays, err := c.searchWitness(lr, ev, "C01", maxK,
		func(steps []*StepVars) *smt.Term { return notUnsafe },
		func(steps []*StepVars) *smt.Term { return lr.c01Viol(steps[len(steps)-1]) },
		func(w *seqWitness, res map[string]interface{}) (bool, string) {
			for _, t := range decodeTokens(res["out_tokens"]) {
				switch t.Type {
				case "StartTag", "EndTag", "SelfClosing":
					if !w.allowed(t.Data) {
						return true, "output contains tag <" + t.Data + "> which the policy does not allow"
					}
				case "Comment":
					if !w.Flags["allowComments"] {
						return true, "output contains a comment although comments are not allowed"
					}
				case "Doctype":
					return true, "output contains a doctype"
				}
			}
			return false, ""
		}, timeout, nil, 6)
	if err != nil {
		return nil, err
	}
	if len(found) == 0 {
		ev.Inconclusive(fmt.Sprintf("C01: the inductive step has a counterexample but no replayable token sequence of length <= %d was found", maxK))
		return nil, nil
	}
	var out []Violation
	for i := range found {
		out = append(out, Violation{Sig: "site=loop-write " + shapeOf(found[i]), Detail: details[i], Replay: replays[i]})
	}
	return out, nil
}

// shapeOf abstracts a witness to token kinds and name-equality classes.
func shapeOf(w *seqWitness) string {
	cls := map[string]int{}
	var parts []string
	for _, t := range w.Tokens {
		if t.Kind >= 2 && t.Kind <= 4 {
			if _, ok := cls[t.Data]; !ok {
				cls[t.Data] = len(cls)
			}
			st := "dropped"
			if w.allowed(t.Data) {
				st = "allowed"
			}
			a := ""
			if t.NAttr > 0 {
				if t.Survive {
					a = "+attr"
				} else {
					a = "-attr"
				}
			}
			parts = append(parts, fmt.Sprintf("%s(%c,%s%s)", strings.ToLower(tokenKindName(t.Kind)), 'A'+cls[t.Data], st, a))
		} else {
			parts = append(parts, strings.ToLower(tokenKindName(t.Kind)))
		}
	}
	return "shape=" + strings.Join(parts, ";")
}
