package checks

import (
	"fmt"
	"regexp"
	"strconv"
	"strings"
	"time"

	"bmsym/smt"
	"bmsym/sym"
)

func loopTimeouts(c *Ctx) (q time.Duration, k int, attrs int) {
	if c.Tier == "thorough" {
		return 120 * time.Second, 4, 2
	}
	return 30 * time.Second, 3, 1
}

// inductive asks whether one step from an arbitrary loop state (optionally
// constrained by inv) can satisfy viol.
func (lr *LoopRun) inductive(name string, inv func(pre map[string]interface{}) *smt.Term, extra func(sv *StepVars) *smt.Term, viol func(sv *StepVars) *smt.Term, timeout time.Duration) (smt.Result, *StepVars) {
	pre := stateVars(lr.T, "pre.")
	sv := lr.T.Instance(0, pre)
	as := []*smt.Term{sv.Formula, lr.PS.WellFormed(), smt.Not(sv.Failed)}
	if extra != nil {
		as = append(as, extra(sv))
	}
	as = append(as, viol(sv))
	vals := []*smt.Term{sv.Sel, sv.Kind, sv.Data}
	return lr.solve(name, as, vals, timeout), sv
}

// C01: only allowlisted elements reach the output.
func (lr *LoopRun) c01Viol(sv *StepVars) *smt.Term {
	ps := lr.PS
	return smt.Or(
		smt.And(sv.RawWrite, smt.Not(smt.And(kindIs(sv.Kind, 1), sv.RawIsText))),
		smt.And(sv.Space, smt.Not(ps.AddSpaces)),
		smt.And(sv.Written, isTag(sv.Kind), smt.Not(ps.Allowed(sv.Data))),
		smt.And(sv.Written, kindIs(sv.Kind, 5), smt.Not(ps.AllowComments)),
		smt.And(sv.Written, smt.Or(kindIs(sv.Kind, 6), kindIs(sv.Kind, 0))),
	)
}

// c01Oracle judges a native run: every tag, comment and doctype of the output
// must be allowed by the witness policy.
func c01Oracle(w *seqWitness, res map[string]interface{}) (bool, string) {
	for _, t := range decodeTokens(res["out_tokens"]) {
		switch t.Type {
		case "StartTag", "EndTag", "SelfClosing":
			if !w.allowed(t.Data) {
				return true, "output contains tag <" + t.Data + "> which the policy does not allow"
			}
		case "Comment":
			if !w.Flags["allowComments"] {
				return true, "output contains a comment although comments are not allowed"
			}
		case "Doctype":
			return true, "output contains a doctype"
		}
	}
	return false, ""
}

// c01Wide repeats the inductive step with tag names over ASCII plus the two
// non-ASCII code points that strings.ToLower maps to ASCII letters (U+212A,
// U+0130): the tokenizer folds only A-Z, so any other case folding between the
// token and the table lookup separates the name that is looked up from the
// name that is written.
func (c *Ctx) c01Wide(ev *Evidence, timeout time.Duration, maxK, attrs int) ([]Violation, error) {
	sym.WideNames = true
	c.SkipStepFeas = true
	defer func() { sym.WideNames = false; c.SkipStepFeas = false }()
	scratch := NewEvidence("C01", c.Tier)
	lr, err := c.loopSetup(scratch, "HarnessLoop_step", attrs)
	if err != nil {
		ev.Outside("non-ASCII tag names: the extended pass could not be set up (" + err.Error() + ")")
		return nil, nil
	}
	defer lr.In.Close()
	notUnsafe := smt.Not(lr.PS.AllowUnsafe)
	// The token name is an explicitly allowed name with a k (or i) replaced by
	// the non-ASCII code point that strings.ToLower folds back to it: with fresh
	// ASCII strings a, b the allowed name is a.k.b and the token name a.K.b
	// (K = U+212A; likewise i / U+0130). Both are substituted into the step
	// relation, and every ToLower application on the token name is replaced by
	// its value a.k.b (a fact about the library: byte-wise ASCII folding leaves
	// a tag name alone, A1, and the two replacements fold K back), so the
	// solvers see concatenations only.
	a, b := smt.Var("wide.a", smt.String), smt.Var("wide.b", smt.String)
	stepOf := regexp.MustCompile(`^s(\d+)\.`)
	mkSub := func(key *smt.Term, ascii, wide string) func(full *smt.Term) map[*smt.Term]*smt.Term {
		return func(full *smt.Term) map[*smt.Term]*smt.Term {
			// the data variable of the last step
			var data *smt.Term
			best := -1
			smt.Walk(full, func(x *smt.Term) {
				if x.Op == "var" && strings.HasSuffix(x.Name, "tok.data") {
					n := 0
					if m := stepOf.FindStringSubmatch(x.Name); m != nil {
						n, _ = strconv.Atoi(m[1])
					}
					if n > best {
						best, data = n, x
					}
				}
			})
			if data == nil {
				return nil
			}
			allowed := smt.Concat(a, smt.StrC(ascii), b)
			sub := map[*smt.Term]*smt.Term{key: allowed, data: smt.Concat(a, smt.StrC(wide), b)}
			smt.Walk(full, func(x *smt.Term) {
				if x.Op == "uf" && x.Name == "lower" && x.Args[0] == data {
					sub[x] = sub[data]
				}
				if x.Op == "str.replace_all" && x.Args[0].Op == "str.replace_all" {
					if u := x.Args[0].Args[0]; u.Op == "uf" && u.Name == "lower" && u.Args[0] == data {
						sub[x] = allowed
					}
				}
			})
			return sub
		}
	}
	asciiLower := smt.Translate(`^[^A-Z]*$`)
	extra := func(sv *StepVars) *smt.Term {
		return smt.And(notUnsafe, isTag(sv.Kind), asciiLower.Match(a), asciiLower.Match(b))
	}
	if timeout < 60*time.Second {
		timeout = 60 * time.Second
	}
	worst := smt.Unsat
	for ki, key := range lr.PS.Els {
		for _, f := range [][2]string{{"k", sym.KelvinSign}, {"i", sym.DottedI}} {
			lr.Sub = mkSub(key, f[0], f[1])
			name := fmt.Sprintf("C01-inductive-nonascii-key%d-%s", ki, f[0])
			r, _ := lr.inductive(name, nil, extra, lr.c01Viol, timeout)
			ev.Query(name, r)
			ev.AddTransitions(len(lr.T.Paths))
			ev.Sample(map[string]interface{}{"query": name + ": the same step for a tag whose name is an explicitly allowed name with a " + f[0] + " replaced by the non-ASCII code point that strings.ToLower folds back to it (the tokenizer does not)", "verdict": r.Status.String(), "solver": r.Solver, "seconds": r.Seconds})
			switch r.Status {
			case smt.Unknown:
				worst = smt.Unknown
			case smt.Sat:
				found, details, replays, err := c.searchWitness(lr, ev, "C01-nonascii", maxK,
					func(steps []*StepVars) *smt.Term { return extra(steps[len(steps)-1]) },
					func(steps []*StepVars) *smt.Term { return lr.c01Viol(steps[len(steps)-1]) },
					c01Oracle, timeout, nil, 6)
				lr.Sub = nil
				if err != nil {
					return nil, err
				}
				if len(found) == 0 {
					ev.Inconclusive("C01: the inductive step over non-ASCII tag names has a counterexample but no replayable token sequence was found")
					return nil, nil
				}
				var out []Violation
				for i := range found {
					out = append(out, Violation{Sig: "site=loop-write non-ascii " + shapeOf(found[i]), Detail: details[i], Replay: replays[i]})
				}
				return out, nil
			}
		}
	}
	lr.Sub = nil
	if worst == smt.Unknown {
		ev.Outside("non-ASCII tag names: an extended inductive query was not decided; the claim is for 7-bit ASCII names")
	} else {
		ev.Bound("tag_name_alphabet", "7-bit ASCII; plus, in a separate pass, explicitly allowed names with a k/i replaced by U+212A/U+0130; other non-ASCII bytes are outside")
	}
	return nil, nil
}

func runC01(c *Ctx, ev *Evidence) ([]Violation, error) {
	timeout, maxK, attrs := loopTimeouts(c)
	lr, err := c.loopSetup(ev, "HarnessLoop_step", attrs)
	if err != nil {
		return nil, err
	}
	defer lr.In.Close()
	ps := lr.PS
	ev.Bound("history", "unbounded (one inductive step from an arbitrary loop state; no invariant needed)")
	ev.Assume("A2: an HTML5 tree builder creates elements only for start tags of the token stream (plus implied wrappers)")
	notUnsafe := smt.Not(ps.AllowUnsafe)
	r, _ := lr.inductive("C01-inductive", nil, func(sv *StepVars) *smt.Term { return notUnsafe }, lr.c01Viol, timeout)
	ev.Query("C01-inductive", r)
	ev.AddTransitions(len(lr.T.Paths))
	ev.Sample(map[string]interface{}{"query": "C01-inductive: arbitrary state, one token, some write is not an allowlisted tag / allowed comment / escaped text / strip space", "verdict": r.Status.String(), "solver": r.Solver, "seconds": r.Seconds, "paths": len(lr.T.Paths)})
	// vacuity: a tag can be written at all
	rv, _ := lr.inductive("C01-reach-tag-written", nil, nil, func(sv *StepVars) *smt.Term { return smt.And(sv.Written, kindIs(sv.Kind, 2)) }, timeout)
	ev.Query("C01-reach", rv)
	if rv.Status != smt.Sat {
		ev.Inconclusive("vacuity witness 'a start tag is written' is not satisfiable: " + rv.Status.String())
	}
	switch r.Status {
	case smt.Unsat:
		return c.c01Wide(ev, timeout, maxK, attrs)
	case smt.Unknown:
		ev.Inconclusive("C01 inductive query undecided: " + r.Note)
		return nil, nil
	}
	// sat: look for a replayable witness from the initial state
	found, details, replays, err := c.searchWitness(lr, ev, "C01", maxK,
		func(steps []*StepVars) *smt.Term { return notUnsafe },
		func(steps []*StepVars) *smt.Term { return lr.c01Viol(steps[len(steps)-1]) },
		c01Oracle, timeout, nil, 6)
	if err != nil {
		return nil, err
	}
	if len(found) == 0 {
		ev.Inconclusive(fmt.Sprintf("C01: the inductive step has a counterexample but no replayable token sequence of length <= %d was found", maxK))
		return nil, nil
	}
	var out []Violation
	for i := range found {
		out = append(out, Violation{Sig: "site=loop-write " + shapeOf(found[i]), Detail: details[i], Replay: replays[i]})
	}
	return out, nil
}

// shapeOf abstracts a witness to token kinds and name-equality classes.
func shapeOf(w *seqWitness) string {
	cls := map[string]int{}
	var parts []string
	for _, t := range w.Tokens {
		if t.Kind >= 2 && t.Kind <= 4 {
			if _, ok := cls[t.Data]; !ok {
				cls[t.Data] = len(cls)
			}
			st := "dropped"
			if w.allowed(t.Data) {
				st = "allowed"
			}
			a := ""
			if t.NAttr > 0 {
				if t.Survive {
					a = "+attr"
				} else {
					a = "-attr"
				}
			}
			parts = append(parts, fmt.Sprintf("%s(%c,%s%s)", strings.ToLower(tokenKindName(t.Kind)), 'A'+cls[t.Data], st, a))
		} else {
			parts = append(parts, strings.ToLower(tokenKindName(t.Kind)))
		}
	}
	return "shape=" + strings.Join(parts, ";")
}
