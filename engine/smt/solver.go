package smt

import (
	"bufio"
	"fmt"
	"io"
	"os"
	"os/exec"
	"strconv"
	"strings"
	"sync"
	"sync/atomic"
	"syscall"
	"time"
)

// Status of a query.
type Status int

const (
	Unknown Status = iota
	Sat
	Unsat
)

func (s Status) String() string { return [...]string{"unknown", "sat", "unsat"}[s] }

// Result of one query.
type Result struct {
	Status  Status
	Solver  string
	Seconds float64
	Values  []ModelValue // aligned with Query.Values
	Note    string       // error text / timeout note
	Tried   []string
}

// ModelValue is a value from a model: exactly one of the fields is meaningful
// depending on the sort of the requested term.
type ModelValue struct {
	Sort string
	B    bool
	I    int64
	S    string
	Raw  string
}

// Query is a satisfiability question.
type Query struct {
	Name    string
	Asserts []*Term
	Values  []*Term
	Prefer  string        // "z3-new", "cvc5", "z3" — first solver tried
	Timeout time.Duration // per solver attempt
	Only    string        // if set, use only this solver
	Both    bool          // wait for both solvers (up to Timeout) before accepting an unsat
	Grace   time.Duration // how long an unsat waits for a contradicting sat (default 500ms)
}

type proc struct {
	kind  string
	cmd   *exec.Cmd
	in    io.WriteCloser
	lines chan string
	dead  bool
	busy  bool
	mu    sync.Mutex
}

func (p *proc) isDead() bool {
	p.mu.Lock()
	defer p.mu.Unlock()
	return p.dead
}

var solverCmd = map[string][]string{
	"z3-new": {"z3-new", "-in"},
	"z3":     {"z3", "-in"},
	"cvc5":   {"cvc5", "--incremental", "--strings-exp", "--produce-models", "--lang=smt2", "--no-strings-regexp-inclusion"},
}

func startProc(kind string) (*proc, error) {
	args := solverCmd[kind]
	cmd := exec.Command(args[0], args[1:]...)
	in, err := cmd.StdinPipe()
	if err != nil {
		return nil, err
	}
	out, err := cmd.StdoutPipe()
	if err != nil {
		return nil, err
	}
	cmd.Stderr = nil
	// solver children must not outlive the checker (a killed run would leave
	// them spinning on their last query)
	cmd.SysProcAttr = &syscall.SysProcAttr{Pdeathsig: syscall.SIGKILL}
	if err := cmd.Start(); err != nil {
		return nil, err
	}
	p := &proc{kind: kind, cmd: cmd, in: in, lines: make(chan string, 256)}
	allProcsMu.Lock()
	allProcs[p] = true
	allProcsMu.Unlock()
	go func() {
		r := bufio.NewReaderSize(out, 1<<20)
		for {
			l, err := r.ReadString('\n')
			if l != "" {
				p.lines <- strings.TrimRight(l, "\r\n")
			}
			if err != nil {
				close(p.lines)
				return
			}
		}
	}()
	if kind == "cvc5" {
		io.WriteString(in, "(set-logic ALL)\n")
	}
	return p, nil
}

var allProcsMu sync.Mutex
var allProcs = map[*proc]bool{}

// KillAll terminates every solver process started by this program.
func KillAll() {
	allProcsMu.Lock()
	var ps []*proc
	for p := range allProcs {
		ps = append(ps, p)
	}
	allProcsMu.Unlock()
	for _, p := range ps {
		p.cmd.Process.Kill()
	}
}

func (p *proc) kill() {
	allProcsMu.Lock()
	delete(allProcs, p)
	allProcsMu.Unlock()
	p.mu.Lock()
	if p.dead {
		p.mu.Unlock()
		return
	}
	p.dead = true
	p.mu.Unlock()
	p.in.Close()
	p.cmd.Process.Kill()
	go func() {
		for range p.lines {
		}
		p.cmd.Wait()
	}()
}

// readUntil reads lines until one equals marker (quoted or not) or deadline.
func (p *proc) readUntil(marker string, deadline time.Time) ([]string, bool) {
	var got []string
	for {
		d := time.Until(deadline)
		if d <= 0 {
			return got, false
		}
		select {
		case l, ok := <-p.lines:
			if !ok {
				return got, false
			}
			if l == marker || l == `"`+marker+`"` {
				return got, true
			}
			got = append(got, l)
		case <-time.After(d):
			return got, false
		}
	}
}

// Stats are global counters over all queries.
type Stats struct {
	Queries, SatN, UnsatN, UnknownN int64
	Conflicts, SingleUnsat          int64
	mu                              sync.Mutex
	SolverSeconds                   map[string]float64
	BySolver                        map[string]int64
}

var GlobalStats = &Stats{SolverSeconds: map[string]float64{}, BySolver: map[string]int64{}}

func (s *Stats) add(r Result, perSolver map[string]float64) {
	atomic.AddInt64(&s.Queries, 1)
	switch r.Status {
	case Sat:
		atomic.AddInt64(&s.SatN, 1)
	case Unsat:
		atomic.AddInt64(&s.UnsatN, 1)
		if strings.Contains(r.Note, " only ") {
			atomic.AddInt64(&s.SingleUnsat, 1)
		}
	default:
		atomic.AddInt64(&s.UnknownN, 1)
	}
	s.mu.Lock()
	for k, v := range perSolver {
		s.SolverSeconds[k] += v
	}
	if r.Status != Unknown {
		s.BySolver[r.Solver]++
	}
	s.mu.Unlock()
}

// Worker owns one process per solver kind. Not safe for concurrent use.
type Worker struct {
	pmu   sync.Mutex
	procs map[string]*proc
	seq   int
	Dump  string // directory to dump queries into, "" = none
}

func NewWorker() *Worker { return &Worker{procs: map[string]*proc{}, Dump: os.Getenv("BMSYM_DUMP")} }

func (w *Worker) Close() {
	for _, p := range w.procs {
		p.kill()
	}
	w.procs = map[string]*proc{}
}

func (w *Worker) get(kind string) (*proc, error) {
	w.pmu.Lock()
	defer w.pmu.Unlock()
	if p, ok := w.procs[kind]; ok && !p.isDead() {
		return p, nil
	}
	p, err := startProc(kind)
	if err != nil {
		return nil, err
	}
	w.procs[kind] = p
	return p, nil
}

// Script renders the query body (declarations + assertions).
func (q *Query) Script() (string, []string) {
	all := append([]*Term{}, q.Asserts...)
	all = append(all, q.Values...)
	body, vnames := PrintAsserts(q.Asserts, q.Values...)
	return Decls(all...) + body, vnames
}

func (w *Worker) attempt(kind string, q *Query, script string, vnames []string, timeout time.Duration) Result {
	start := time.Now()
	res := Result{Solver: kind}
	p, err := w.get(kind)
	if err != nil {
		res.Note = "start: " + err.Error()
		return res
	}
	w.pmu.Lock()
	w.seq++
	mark := fmt.Sprintf("@@M%d", w.seq)
	p.busy = true
	w.pmu.Unlock()
	defer func() { w.pmu.Lock(); p.busy = false; w.pmu.Unlock() }()
	var sb strings.Builder
	sb.WriteString("(push 1)\n")
	if kind != "cvc5" {
		fmt.Fprintf(&sb, "(set-option :timeout %d)\n", timeout.Milliseconds())
	}
	sb.WriteString(script)
	sb.WriteString("(check-sat)\n")
	fmt.Fprintf(&sb, "(echo \"%s\")\n", mark)
	if _, err := io.WriteString(p.in, sb.String()); err != nil {
		p.kill()
		res.Note = "write: " + err.Error()
		return res
	}
	lines, ok := p.readUntil(mark, start.Add(timeout+500*time.Millisecond))
	res.Seconds = time.Since(start).Seconds()
	if !ok {
		if p.isDead() {
			res.Note = "cancelled"
		} else {
			res.Note = "timeout"
		}
		p.kill()
		return res
	}
	status := ""
	for _, l := range lines {
		if strings.Contains(l, "(error") {
			res.Note = "solver error: " + l
			// state of the process is suspect
			p.kill()
			return res
		}
		switch l {
		case "sat", "unsat", "unknown":
			status = l
		}
	}
	switch status {
	case "sat":
		res.Status = Sat
	case "unsat":
		res.Status = Unsat
	default:
		res.Note = "unknown"
	}
	if res.Status == Sat && len(q.Values) > 0 {
		w.pmu.Lock()
		w.seq++
		mark2 := fmt.Sprintf("@@M%d", w.seq)
		w.pmu.Unlock()
		var vb strings.Builder
		vb.WriteString("(get-value (")
		for i, v := range vnames {
			if i > 0 {
				vb.WriteByte(' ')
			}
			vb.WriteString(v)
		}
		fmt.Fprintf(&vb, "))\n(echo \"%s\")\n", mark2)
		io.WriteString(p.in, vb.String())
		vl, ok := p.readUntil(mark2, time.Now().Add(20*time.Second))
		if !ok {
			p.kill()
			res.Status = Unknown
			res.Note = "get-value timeout"
			return res
		}
		txt := strings.Join(vl, "\n")
		if strings.Contains(txt, "(error") {
			p.kill()
			res.Status = Unknown
			res.Note = "get-value error: " + txt
			return res
		}
		vals, err := parseValues(txt, q.Values)
		if err != nil {
			res.Status = Unknown
			res.Note = "get-value parse: " + err.Error() + ": " + txt
			io.WriteString(p.in, "(pop 1)\n")
			return res
		}
		res.Values = vals
	}
	io.WriteString(p.in, "(pop 1)\n")
	return res
}

// Check runs the query through the solver portfolio.
func (w *Worker) Check(q *Query) Result {
	timeout := q.Timeout
	if timeout == 0 {
		timeout = 10 * time.Second
	}
	script, vnames := q.Script()
	if w.Dump != "" {
		os.WriteFile(fmt.Sprintf("%s/%s.smt2", w.Dump, strings.ReplaceAll(q.Name, "/", "_")), []byte(script+"(check-sat)\n"), 0o644)
	}
	var kinds []string
	if q.Only != "" {
		kinds = []string{q.Only}
	} else {
		kinds = []string{"z3-new", "cvc5"}
	}
	per := map[string]float64{}
	var last Result
	var tried []string
	type ans struct {
		r    Result
		kind string
	}
	ch := make(chan ans, len(kinds))
	for _, k := range kinds {
		go func(k string) { ch <- ans{w.attempt(k, q, script, vnames, timeout), k} }(k)
	}
	got := 0
	decided := false
	stopOthers := func(except string) {
		w.pmu.Lock()
		for _, k := range kinds {
			if k != except {
				if p, ok := w.procs[k]; ok && p.busy {
					p.kill()
				}
			}
		}
		w.pmu.Unlock()
	}
	var grace <-chan time.Time
	var pendingUnsat *Result
loop:
	for got < len(kinds) {
		var a ans
		select {
		case a = <-ch:
		case <-grace:
			// nobody contradicted the unsat within the grace period
			last = *pendingUnsat
			last.Note = "unsat from " + last.Solver + " only (other solver still running after grace period)"
			decided = true
			stopOthers(last.Solver)
			grace = nil
			continue loop
		}
		got++
		per[a.kind] += a.r.Seconds
		tried = append(tried, fmt.Sprintf("%s:%s:%.2fs", a.kind, a.r.Status, a.r.Seconds))
		if decided {
			continue
		}
		switch a.r.Status {
		case Sat:
			// a model is always checked natively by the caller, so sat wins
			if pendingUnsat != nil {
				a.r.Note = "CONFLICT: " + pendingUnsat.Solver + " answered unsat"
				atomic.AddInt64(&GlobalStats.Conflicts, 1)
			}
			last = a.r
			decided = true
			stopOthers(a.kind)
		case Unsat:
			if pendingUnsat != nil || len(kinds) == 1 || got == len(kinds) {
				last = a.r
				if pendingUnsat == nil && len(kinds) > 1 {
					last.Note = "unsat from " + a.kind + " only (other solver gave no answer)"
				}
				decided = true
				stopOthers(a.kind)
			} else {
				r := a.r
				pendingUnsat = &r
				g := q.Grace
				if g == 0 {
					g = 500 * time.Millisecond
				}
				if q.Both {
					g = timeout
					if q.Grace > 0 {
						g = q.Grace
					}
				}
				grace = time.After(g)
			}
		default:
			if pendingUnsat != nil && got == len(kinds) {
				last = *pendingUnsat
				last.Note = "unsat from " + last.Solver + " only (other solver: " + a.r.Note + ")"
				decided = true
			} else {
				last = a.r
			}
		}
	}
	last.Tried = tried
	if os.Getenv("BMSYM_QLOG") != "" {
		fmt.Fprintf(os.Stderr, "Q %s -> %s %v\n", q.Name, last.Status, tried)
	}
	GlobalStats.add(last, per)
	return last
}

// ---- s-expression parsing of get-value output

type sexp struct {
	atom string
	str  bool
	list []*sexp
}

func parseSexp(s string, i int) (*sexp, int, error) {
	for i < len(s) && (s[i] == ' ' || s[i] == '\n' || s[i] == '\t' || s[i] == '\r') {
		i++
	}
	if i >= len(s) {
		return nil, i, io.EOF
	}
	switch s[i] {
	case '(':
		i++
		n := &sexp{list: []*sexp{}}
		for {
			for i < len(s) && (s[i] == ' ' || s[i] == '\n' || s[i] == '\t' || s[i] == '\r') {
				i++
			}
			if i >= len(s) {
				return nil, i, fmt.Errorf("unbalanced")
			}
			if s[i] == ')' {
				return n, i + 1, nil
			}
			c, j, err := parseSexp(s, i)
			if err != nil {
				return nil, j, err
			}
			n.list = append(n.list, c)
			i = j
		}
	case '"':
		i++
		var sb strings.Builder
		for {
			if i >= len(s) {
				return nil, i, fmt.Errorf("unterminated string")
			}
			if s[i] == '"' {
				if i+1 < len(s) && s[i+1] == '"' {
					sb.WriteByte('"')
					i += 2
					continue
				}
				return &sexp{atom: sb.String(), str: true}, i + 1, nil
			}
			sb.WriteByte(s[i])
			i++
		}
	case '|':
		j := strings.IndexByte(s[i+1:], '|')
		if j < 0 {
			return nil, i, fmt.Errorf("unterminated |")
		}
		return &sexp{atom: s[i : i+j+2]}, i + j + 2, nil
	default:
		j := i
		for j < len(s) && !strings.ContainsRune(" \n\t\r()", rune(s[j])) {
			j++
		}
		return &sexp{atom: s[i:j]}, j, nil
	}
}

// UnescapeSMT decodes \u{..}, \ud, \xHH escapes of a model string into bytes.
func UnescapeSMT(s string) string {
	var out []byte
	for i := 0; i < len(s); {
		if s[i] == '\\' && i+1 < len(s) && s[i+1] == 'u' {
			if i+2 < len(s) && s[i+2] == '{' {
				j := strings.IndexByte(s[i+3:], '}')
				if j >= 0 {
					if v, err := strconv.ParseInt(s[i+3:i+3+j], 16, 32); err == nil {
						out = appendCode(out, v)
						i += j + 4
						continue
					}
				}
			} else if i+6 <= len(s) {
				if v, err := strconv.ParseInt(s[i+2:i+6], 16, 32); err == nil {
					out = appendCode(out, v)
					i += 6
					continue
				}
			}
		}
		if s[i] == '\\' && i+3 < len(s) && s[i+1] == 'x' {
			if v, err := strconv.ParseInt(s[i+2:i+4], 16, 32); err == nil {
				out = append(out, byte(v))
				i += 4
				continue
			}
		}
		out = append(out, s[i])
		i++
	}
	return string(out)
}

func appendCode(out []byte, v int64) []byte {
	if v < 256 {
		return append(out, byte(v))
	}
	// outside the byte alphabet (only the regex marker code points are
	// expected here); keep as UTF-8 so it is visible in reports.
	return append(out, []byte(string(rune(v)))...)
}

func parseValues(txt string, want []*Term) ([]ModelValue, error) {
	sx, _, err := parseSexp(txt, 0)
	if err != nil {
		return nil, err
	}
	if len(sx.list) != len(want) {
		return nil, fmt.Errorf("expected %d values, got %d", len(want), len(sx.list))
	}
	out := make([]ModelValue, len(want))
	for i, pair := range sx.list {
		if len(pair.list) != 2 {
			return nil, fmt.Errorf("bad pair")
		}
		v := pair.list[1]
		mv := ModelValue{Sort: want[i].Sort}
		switch want[i].Sort {
		case Bool:
			mv.B = v.atom == "true"
		case Int:
			if v.list != nil {
				if len(v.list) == 2 && v.list[0].atom == "-" {
					n, _ := strconv.ParseInt(v.list[1].atom, 10, 64)
					mv.I = -n
				} else {
					return nil, fmt.Errorf("bad int")
				}
			} else {
				n, err := strconv.ParseInt(v.atom, 10, 64)
				if err != nil {
					return nil, err
				}
				mv.I = n
			}
		case String:
			if !v.str {
				return nil, fmt.Errorf("expected string literal, got %q", v.atom)
			}
			mv.S = UnescapeSMT(v.atom)
		default:
			mv.Raw = v.atom
		}
		out[i] = mv
	}
	return out, nil
}
