// Package smt is a small hash-consed SMT term library with syntactic
// simplification and an SMT-LIB2 printer. One SMT character stands for one Go
// byte (0..255); strings that must be ASCII are constrained by the caller.
package smt

import (
	"fmt"
	"sort"
	"strconv"
	"strings"
	"sync"
)

const (
	Bool   = "Bool"
	Int    = "Int"
	String = "String"
	RegLan = "RegLan"
	ArrIS  = "(Array Int String)"
)

// Term is an immutable, hash-consed SMT term. Pointer equality is structural
// equality.
type Term struct {
	Op   string // "var", "const", "uf" or an SMT-LIB operator
	Sort string
	Name string // var / uf name
	Args []*Term
	B    bool
	I    int64
	S    string
	key  string
	id   int
	// Re carries the Go regexp source for RegLan terms built from a known
	// pattern (used for constant folding), "" otherwise.
	Aux interface{}
}

var (
	mu     sync.Mutex
	table  = map[string]*Term{}
	nextID int
	// UFs records uninterpreted function signatures by name.
	UFs = map[string]UFSig{}
)

type UFSig struct {
	Args []string
	Ret  string
}

func intern(t *Term) *Term {
	var sb strings.Builder
	sb.WriteString(t.Op)
	sb.WriteByte('|')
	sb.WriteString(t.Sort)
	sb.WriteByte('|')
	sb.WriteString(t.Name)
	sb.WriteByte('|')
	switch t.Op {
	case "const":
		switch t.Sort {
		case Bool:
			if t.B {
				sb.WriteString("T")
			} else {
				sb.WriteString("F")
			}
		case Int:
			sb.WriteString(strconv.FormatInt(t.I, 10))
		case String:
			sb.WriteString(strconv.Quote(t.S))
		}
	}
	for _, a := range t.Args {
		sb.WriteByte(',')
		sb.WriteString(strconv.Itoa(a.id))
	}
	k := sb.String()
	mu.Lock()
	defer mu.Unlock()
	if e, ok := table[k]; ok {
		return e
	}
	nextID++
	t.id = nextID
	t.key = k
	table[k] = t
	return t
}

func (t *Term) ID() int { return t.id }

var (
	True  = intern(&Term{Op: "const", Sort: Bool, B: true})
	False = intern(&Term{Op: "const", Sort: Bool, B: false})
)

func BoolC(b bool) *Term {
	if b {
		return True
	}
	return False
}
func IntC(i int64) *Term  { return intern(&Term{Op: "const", Sort: Int, I: i}) }
func StrC(s string) *Term { return intern(&Term{Op: "const", Sort: String, S: s}) }
func Var(name, sort string) *Term {
	return intern(&Term{Op: "var", Sort: sort, Name: name})
}

var freshCtr int64
var freshMu sync.Mutex

// Fresh returns a new variable with a unique name.
func Fresh(prefix, sort string) *Term {
	freshMu.Lock()
	freshCtr++
	n := freshCtr
	freshMu.Unlock()
	return Var(fmt.Sprintf("%s!%d", prefix, n), sort)
}

func (t *Term) IsConst() bool { return t.Op == "const" }
func (t *Term) IsTrue() bool  { return t == True }
func (t *Term) IsFalse() bool { return t == False }

// UF builds an application of an uninterpreted function, declaring it.
func UF(name string, ret string, args ...*Term) *Term {
	sig := UFSig{Ret: ret}
	for _, a := range args {
		sig.Args = append(sig.Args, a.Sort)
	}
	mu.Lock()
	if old, ok := UFs[name]; ok {
		if old.Ret != ret || len(old.Args) != len(sig.Args) {
			mu.Unlock()
			panic("UF signature mismatch for " + name)
		}
	} else {
		UFs[name] = sig
	}
	mu.Unlock()
	return intern(&Term{Op: "uf", Sort: ret, Name: name, Args: args})
}

// App builds a raw operator application without simplification.
func App(op, sort string, args ...*Term) *Term {
	return intern(&Term{Op: op, Sort: sort, Args: args})
}

func Not(a *Term) *Term {
	if a.IsConst() {
		return BoolC(!a.B)
	}
	if a.Op == "not" {
		return a.Args[0]
	}
	return App("not", Bool, a)
}

// eqConst decomposes (= x c) with c a constant.
func eqConst(t *Term) (x, c *Term, ok bool) {
	if t.Op != "=" {
		return nil, nil, false
	}
	if t.Args[1].IsConst() {
		return t.Args[0], t.Args[1], true
	}
	if t.Args[0].IsConst() {
		return t.Args[1], t.Args[0], true
	}
	return nil, nil, false
}

func And(as ...*Term) *Term {
	var out []*Term
	seen := map[*Term]bool{}
	bind := map[*Term]*Term{} // x -> constant it is equal to
	var add func(t *Term) bool
	add = func(t *Term) bool {
		if t.IsFalse() {
			return false
		}
		if t.IsTrue() || seen[t] {
			return true
		}
		if t.Op == "and" {
			for _, x := range t.Args {
				if !add(x) {
					return false
				}
			}
			return true
		}
		if seen[Not(t)] {
			return false
		}
		// x = c1 together with x = c2 (distinct constants) is false; x != c2 is
		// implied by x = c1
		if x, c, ok := eqConst(t); ok {
			if b, have := bind[x]; have {
				return b == c
			}
			bind[x] = c
		} else if t.Op == "not" {
			if x, c, ok := eqConst(t.Args[0]); ok {
				if b, have := bind[x]; have {
					return b != c
				}
			}
		}
		seen[t] = true
		out = append(out, t)
		return true
	}
	for _, a := range as {
		if !add(a) {
			return False
		}
	}
	switch len(out) {
	case 0:
		return True
	case 1:
		return out[0]
	}
	return App("and", Bool, out...)
}

func Or(as ...*Term) *Term {
	var out []*Term
	seen := map[*Term]bool{}
	var add func(t *Term) bool
	add = func(t *Term) bool {
		if t.IsTrue() {
			return false
		}
		if t.IsFalse() || seen[t] {
			return true
		}
		if t.Op == "or" {
			for _, x := range t.Args {
				if !add(x) {
					return false
				}
			}
			return true
		}
		if seen[Not(t)] {
			return false
		}
		seen[t] = true
		out = append(out, t)
		return true
	}
	for _, a := range as {
		if !add(a) {
			return True
		}
	}
	switch len(out) {
	case 0:
		return False
	case 1:
		return out[0]
	}
	return App("or", Bool, out...)
}

func Implies(a, b *Term) *Term { return Or(Not(a), b) }

func Ite(c, a, b *Term) *Term {
	if c.IsTrue() {
		return a
	}
	if c.IsFalse() {
		return b
	}
	if a == b {
		return a
	}
	if a.Sort == Bool {
		if a.IsTrue() && b.IsFalse() {
			return c
		}
		if a.IsFalse() && b.IsTrue() {
			return Not(c)
		}
		if a.IsTrue() {
			return Or(c, b)
		}
		if a.IsFalse() {
			return And(Not(c), b)
		}
		if b.IsTrue() {
			return Or(Not(c), a)
		}
		if b.IsFalse() {
			return And(c, a)
		}
	}
	return App("ite", a.Sort, c, a, b)
}

func Eq(a, b *Term) *Term {
	if a == b {
		return True
	}
	if a.Sort != b.Sort {
		panic(fmt.Sprintf("Eq sort mismatch %s vs %s: %s / %s", a.Sort, b.Sort, a, b))
	}
	if a.IsConst() && b.IsConst() {
		return False // distinct interned constants
	}
	if a.Sort == Bool {
		if a.IsConst() {
			if a.B {
				return b
			}
			return Not(b)
		}
		if b.IsConst() {
			if b.B {
				return a
			}
			return Not(a)
		}
	}
	if a.Sort == String {
		if r := strEqSimpl(a, b); r != nil {
			return r
		}
	}
	// ite with constant branches against constant
	if b.IsConst() && a.Op == "ite" && a.Args[1].IsConst() && a.Args[2].IsConst() {
		return Ite(a.Args[0], Eq(a.Args[1], b), Eq(a.Args[2], b))
	}
	if a.IsConst() && b.Op == "ite" && b.Args[1].IsConst() && b.Args[2].IsConst() {
		return Ite(b.Args[0], Eq(b.Args[1], a), Eq(b.Args[2], a))
	}
	if a.id > b.id {
		a, b = b, a
	}
	return App("=", Bool, a, b)
}

// strEqSimpl does cheap syntactic refutation of string equalities (constant
// prefix / suffix mismatch, length lower bounds).
func strEqSimpl(a, b *Term) *Term {
	pa, pb := constPrefix(a), constPrefix(b)
	n := len(pa)
	if len(pb) < n {
		n = len(pb)
	}
	if pa[:n] != pb[:n] {
		return False
	}
	sa, sb := constSuffix(a), constSuffix(b)
	n = len(sa)
	if len(sb) < n {
		n = len(sb)
	}
	if sa[len(sa)-n:] != sb[len(sb)-n:] {
		return False
	}
	if a.IsConst() && minLen(b) > int64(len(a.S)) {
		return False
	}
	if b.IsConst() && minLen(a) > int64(len(b.S)) {
		return False
	}
	return nil
}

func constPrefix(t *Term) string {
	if t.IsConst() {
		return t.S
	}
	if t.Op == "str.++" && t.Args[0].IsConst() {
		return t.Args[0].S
	}
	return ""
}
func constSuffix(t *Term) string {
	if t.IsConst() {
		return t.S
	}
	if t.Op == "str.++" && t.Args[len(t.Args)-1].IsConst() {
		return t.Args[len(t.Args)-1].S
	}
	return ""
}
func minLen(t *Term) int64 {
	if t.IsConst() {
		return int64(len(t.S))
	}
	if t.Op == "str.++" {
		var n int64
		for _, a := range t.Args {
			n += minLen(a)
		}
		return n
	}
	return 0
}

func Distinct(a, b *Term) *Term { return Not(Eq(a, b)) }

// ---- integers

func Add(a, b *Term) *Term {
	if a.IsConst() && b.IsConst() {
		return IntC(a.I + b.I)
	}
	if a.IsConst() && a.I == 0 {
		return b
	}
	if b.IsConst() && b.I == 0 {
		return a
	}
	// (x + c1) + c2
	if b.IsConst() && a.Op == "+" && a.Args[1].IsConst() {
		return Add(a.Args[0], IntC(a.Args[1].I+b.I))
	}
	if a.IsConst() {
		a, b = b, a
	}
	return App("+", Int, a, b)
}
func Sub(a, b *Term) *Term {
	if b.IsConst() {
		return Add(a, IntC(-b.I))
	}
	if a == b {
		return IntC(0)
	}
	return App("-", Int, a, b)
}
func Mul(a, b *Term) *Term {
	if a.IsConst() && b.IsConst() {
		return IntC(a.I * b.I)
	}
	return App("*", Int, a, b)
}
func Lt(a, b *Term) *Term {
	if a.IsConst() && b.IsConst() {
		return BoolC(a.I < b.I)
	}
	if a == b {
		return False
	}
	return App("<", Bool, a, b)
}
func Le(a, b *Term) *Term {
	if a.IsConst() && b.IsConst() {
		return BoolC(a.I <= b.I)
	}
	if a == b {
		return True
	}
	// 0 <= str.len x
	if a.IsConst() && a.I <= 0 && b.Op == "str.len" {
		return True
	}
	return App("<=", Bool, a, b)
}
func Gt(a, b *Term) *Term { return Lt(b, a) }
func Ge(a, b *Term) *Term { return Le(b, a) }

// ---- strings

func Concat(as ...*Term) *Term {
	var out []*Term
	for _, a := range as {
		var parts []*Term
		if a.Op == "str.++" {
			parts = a.Args
		} else {
			parts = []*Term{a}
		}
		for _, p := range parts {
			if p.IsConst() && p.S == "" {
				continue
			}
			if p.IsConst() && len(out) > 0 && out[len(out)-1].IsConst() {
				out[len(out)-1] = StrC(out[len(out)-1].S + p.S)
				continue
			}
			out = append(out, p)
		}
	}
	switch len(out) {
	case 0:
		return StrC("")
	case 1:
		return out[0]
	}
	return App("str.++", String, out...)
}

func StrLen(a *Term) *Term {
	if a.IsConst() {
		return IntC(int64(len(a.S)))
	}
	if a.Op == "str.++" {
		// sum of parts keeps constants folded
		var c int64
		var rest *Term
		for _, p := range a.Args {
			if p.IsConst() {
				c += int64(len(p.S))
			} else if rest == nil {
				rest = App("str.len", Int, p)
			} else {
				rest = App("+", Int, rest, App("str.len", Int, p))
			}
		}
		return Add(rest, IntC(c))
	}
	return App("str.len", Int, a)
}

func Contains(s, sub *Term) *Term {
	if s.IsConst() && sub.IsConst() {
		return BoolC(strings.Contains(s.S, sub.S))
	}
	if sub.IsConst() && sub.S == "" {
		return True
	}
	if s == sub {
		return True
	}
	if s.Op == "str.++" && sub.IsConst() {
		for _, p := range s.Args {
			if p.IsConst() && strings.Contains(p.S, sub.S) {
				return True
			}
		}
		// Distribution: if every two non-constant parts are separated by a
		// constant none of whose characters occurs in sub, an occurrence of sub
		// cannot span a separator, so it lies inside one part.
		ok := true
		prevVar := false
		for _, p := range s.Args {
			if p.IsConst() {
				if strings.ContainsAny(p.S, sub.S) {
					ok = false
					break
				}
				prevVar = false
			} else {
				if prevVar {
					ok = false
					break
				}
				prevVar = true
			}
		}
		if ok {
			var ds []*Term
			for _, p := range s.Args {
				if !p.IsConst() {
					ds = append(ds, Contains(p, sub))
				}
			}
			return Or(ds...)
		}
	}
	return App("str.contains", Bool, s, sub)
}
func PrefixOf(pre, s *Term) *Term {
	if s.IsConst() && pre.IsConst() {
		return BoolC(strings.HasPrefix(s.S, pre.S))
	}
	if pre.IsConst() && pre.S == "" {
		return True
	}
	if pre.IsConst() {
		cp := constPrefix(s)
		n := len(cp)
		if n >= len(pre.S) {
			return BoolC(strings.HasPrefix(cp, pre.S))
		}
		if cp != pre.S[:n] {
			return False
		}
	}
	return App("str.prefixof", Bool, pre, s)
}
func SuffixOf(suf, s *Term) *Term {
	if s.IsConst() && suf.IsConst() {
		return BoolC(strings.HasSuffix(s.S, suf.S))
	}
	if suf.IsConst() && suf.S == "" {
		return True
	}
	if suf.IsConst() {
		cs := constSuffix(s)
		if len(cs) >= len(suf.S) {
			return BoolC(strings.HasSuffix(cs, suf.S))
		}
		if cs != suf.S[len(suf.S)-len(cs):] {
			return False
		}
	}
	return App("str.suffixof", Bool, suf, s)
}
func Substr(s, off, n *Term) *Term {
	if s.IsConst() && off.IsConst() && n.IsConst() {
		o, l := off.I, n.I
		if o < 0 || o >= int64(len(s.S)) || l <= 0 {
			return StrC("")
		}
		if o+l > int64(len(s.S)) {
			l = int64(len(s.S)) - o
		}
		return StrC(s.S[o : o+l])
	}
	// substr of a concat with a constant head when off, n constant inside head
	if off.IsConst() && n.IsConst() {
		cp := constPrefix(s)
		if off.I >= 0 && n.I >= 0 && off.I+n.I <= int64(len(cp)) {
			return StrC(cp[off.I : off.I+n.I])
		}
	}
	// full-string substr
	if off.IsConst() && off.I == 0 && n == StrLen(s) {
		return s
	}
	return App("str.substr", String, s, off, n)
}
func At(s, i *Term) *Term {
	if s.IsConst() && i.IsConst() {
		if i.I < 0 || i.I >= int64(len(s.S)) {
			return StrC("")
		}
		return StrC(s.S[i.I : i.I+1])
	}
	return App("str.at", String, s, i)
}
func IndexOf(s, sub, from *Term) *Term {
	if s.IsConst() && sub.IsConst() && from.IsConst() {
		if from.I < 0 || from.I > int64(len(s.S)) {
			return IntC(-1)
		}
		i := strings.Index(s.S[from.I:], sub.S)
		if i < 0 {
			return IntC(-1)
		}
		return IntC(int64(i) + from.I)
	}
	return App("str.indexof", Int, s, sub, from)
}
func ReplaceAll(s, old, new *Term) *Term {
	if s.IsConst() && old.IsConst() && new.IsConst() && old.S != "" {
		return StrC(strings.ReplaceAll(s.S, old.S, new.S))
	}
	return App("str.replace_all", String, s, old, new)
}
func ToCode(s *Term) *Term {
	if s.IsConst() {
		if len(s.S) == 1 {
			return IntC(int64(s.S[0]))
		}
		return IntC(-1)
	}
	return App("str.to_code", Int, s)
}
func FromCode(i *Term) *Term {
	if i.IsConst() {
		if i.I >= 0 && i.I < 256 {
			return StrC(string([]byte{byte(i.I)}))
		}
	}
	return App("str.from_code", String, i)
}

// InRe builds (str.in_re s r). If r carries a matcher in Aux and s is
// constant it folds using the real matcher.
func InRe(s, r *Term) *Term {
	if s.IsConst() {
		if m, ok := r.Aux.(func(string) bool); ok && m != nil {
			return BoolC(m(s.S))
		}
	}
	return App("str.in_re", Bool, s, r)
}

// WithAux returns a copy of a RegLan term that carries a native matcher used
// for constant folding. The copy is interned under a distinct key.
func WithAux(r *Term, name string, m func(string) bool) *Term {
	t := intern(&Term{Op: r.Op, Sort: r.Sort, Name: "aux:" + name, Args: r.Args, S: r.S, I: r.I})
	t.Aux = m
	return t
}

// ---- arrays (Int -> String)

func Select(a, i *Term) *Term {
	// read-over-write with syntactically decidable indices
	for a.Op == "store" {
		e := Eq(a.Args[1], i)
		if e.IsTrue() {
			return a.Args[2]
		}
		if e.IsFalse() {
			a = a.Args[0]
			continue
		}
		break
	}
	return App("select", String, a, i)
}
func Store(a, i, v *Term) *Term { return App("store", a.Sort, a, i, v) }

// ---- traversal

// Subst replaces variables by terms.
func Subst(t *Term, m map[*Term]*Term) *Term {
	memo := map[*Term]*Term{}
	var rec func(t *Term) *Term
	rec = func(t *Term) *Term {
		if r, ok := m[t]; ok {
			return r
		}
		if len(t.Args) == 0 {
			return t
		}
		if r, ok := memo[t]; ok {
			return r
		}
		changed := false
		na := make([]*Term, len(t.Args))
		for i, a := range t.Args {
			na[i] = rec(a)
			if na[i] != a {
				changed = true
			}
		}
		r := t
		if changed {
			r = Rebuild(t, na)
		}
		memo[t] = r
		return r
	}
	return rec(t)
}

// Rebuild re-applies t's operator to new arguments through the simplifying
// constructors.
func Rebuild(t *Term, a []*Term) *Term {
	switch t.Op {
	case "not":
		return Not(a[0])
	case "and":
		return And(a...)
	case "or":
		return Or(a...)
	case "ite":
		return Ite(a[0], a[1], a[2])
	case "=":
		return Eq(a[0], a[1])
	case "+":
		return Add(a[0], a[1])
	case "-":
		return Sub(a[0], a[1])
	case "*":
		return Mul(a[0], a[1])
	case "<":
		return Lt(a[0], a[1])
	case "<=":
		return Le(a[0], a[1])
	case "str.++":
		return Concat(a...)
	case "str.len":
		return StrLen(a[0])
	case "str.contains":
		return Contains(a[0], a[1])
	case "str.prefixof":
		return PrefixOf(a[0], a[1])
	case "str.suffixof":
		return SuffixOf(a[0], a[1])
	case "str.substr":
		return Substr(a[0], a[1], a[2])
	case "str.at":
		return At(a[0], a[1])
	case "str.indexof":
		return IndexOf(a[0], a[1], a[2])
	case "str.replace_all":
		return ReplaceAll(a[0], a[1], a[2])
	case "str.to_code":
		return ToCode(a[0])
	case "str.from_code":
		return FromCode(a[0])
	case "str.in_re":
		return InRe(a[0], a[1])
	case "select":
		return Select(a[0], a[1])
	case "store":
		return Store(a[0], a[1], a[2])
	case "uf":
		if h, ok := UFFolders[t.Name]; ok {
			if r := h(a); r != nil {
				return r
			}
		}
		return intern(&Term{Op: "uf", Sort: t.Sort, Name: t.Name, Args: a})
	}
	nt := intern(&Term{Op: t.Op, Sort: t.Sort, Name: t.Name, Args: a, S: t.S, I: t.I})
	if nt.Aux == nil {
		nt.Aux = t.Aux
	}
	return nt
}

// UFFolders lets library models fold UF applications on constant arguments
// when terms are rebuilt by substitution.
var UFFolders = map[string]func(args []*Term) *Term{}

// Walk visits every distinct subterm once.
func Walk(t *Term, f func(*Term)) {
	seen := map[*Term]bool{}
	var rec func(t *Term)
	rec = func(t *Term) {
		if seen[t] {
			return
		}
		seen[t] = true
		for _, a := range t.Args {
			rec(a)
		}
		f(t)
	}
	rec(t)
}

// Size is the number of distinct subterms.
func Size(t *Term) int {
	n := 0
	Walk(t, func(*Term) { n++ })
	return n
}

// ---- printing

func EscapeString(s string) string {
	var sb strings.Builder
	sb.WriteByte('"')
	for i := 0; i < len(s); i++ {
		b := s[i]
		switch {
		case b == '"':
			sb.WriteString(`""`)
		case b == '\\' || b < 0x20 || b >= 0x7f:
			fmt.Fprintf(&sb, `\u{%x}`, b)
		default:
			sb.WriteByte(b)
		}
	}
	sb.WriteByte('"')
	return sb.String()
}

func symName(n string) string {
	for i := 0; i < len(n); i++ {
		c := n[i]
		if !(c >= 'a' && c <= 'z' || c >= 'A' && c <= 'Z' || c >= '0' && c <= '9' || c == '_' || c == '!' || c == '.' || c == '-' || c == '$') {
			return "|" + strings.ReplaceAll(n, "|", "_") + "|"
		}
	}
	return n
}

func (t *Term) String() string {
	var sb strings.Builder
	// shared sub-DAGs are printed in full; use PrintQuery for let-sharing.
	t.write(&sb, nil)
	return sb.String()
}

func (t *Term) write(sb *strings.Builder, names map[*Term]string) {
	if names != nil {
		if n, ok := names[t]; ok {
			sb.WriteString(n)
			return
		}
	}
	switch t.Op {
	case "const":
		switch t.Sort {
		case Bool:
			if t.B {
				sb.WriteString("true")
			} else {
				sb.WriteString("false")
			}
		case Int:
			if t.I < 0 {
				fmt.Fprintf(sb, "(- %d)", -t.I)
			} else {
				fmt.Fprintf(sb, "%d", t.I)
			}
		case String:
			sb.WriteString(EscapeString(t.S))
		}
		return
	case "var":
		sb.WriteString(symName(t.Name))
		return
	case "uf":
		if len(t.Args) == 0 {
			sb.WriteString(symName(t.Name))
			return
		}
		sb.WriteByte('(')
		sb.WriteString(symName(t.Name))
	case "re.allchar", "re.all", "re.none":
		if len(t.Args) == 0 {
			sb.WriteString(t.Op)
			return
		}
		sb.WriteByte('(')
		sb.WriteString(t.Op)
	default:
		if len(t.Args) == 0 {
			sb.WriteString(t.Op)
			return
		}
		sb.WriteByte('(')
		sb.WriteString(t.Op)
	}
	for _, a := range t.Args {
		sb.WriteByte(' ')
		a.write(sb, names)
	}
	sb.WriteByte(')')
}

// Decls returns declarations for all variables and UFs in the terms.
func Decls(ts ...*Term) string {
	vars := map[string]string{}
	ufs := map[string]bool{}
	for _, t := range ts {
		Walk(t, func(x *Term) {
			if x.Op == "var" {
				vars[x.Name] = x.Sort
			} else if x.Op == "uf" {
				ufs[x.Name] = true
			}
		})
	}
	var names []string
	for n := range vars {
		names = append(names, n)
	}
	sort.Strings(names)
	var sb strings.Builder
	for _, n := range names {
		fmt.Fprintf(&sb, "(declare-fun %s () %s)\n", symName(n), vars[n])
	}
	names = names[:0]
	for n := range ufs {
		names = append(names, n)
	}
	sort.Strings(names)
	for _, n := range names {
		sig := UFs[n]
		fmt.Fprintf(&sb, "(declare-fun %s (%s) %s)\n", symName(n), strings.Join(sig.Args, " "), sig.Ret)
	}
	return sb.String()
}

// PrintAsserts prints (assert t) for every t and a define-fun for every
// value term, using define-fun for shared non-leaf subterms so that DAGs do
// not blow up as trees. It returns the script and the names under which the
// value terms can be requested with get-value.
func PrintAsserts(ts []*Term, values ...*Term) (string, []string) {
	refs := map[*Term]int{}
	var order []*Term
	seen := map[*Term]bool{}
	var rec func(t *Term)
	rec = func(t *Term) {
		refs[t]++
		if seen[t] {
			return
		}
		seen[t] = true
		for _, a := range t.Args {
			rec(a)
		}
		order = append(order, t)
	}
	for _, t := range ts {
		rec(t)
	}
	for _, t := range values {
		rec(t)
		refs[t] += 2 // force a definition
	}
	names := map[*Term]string{}
	var sb strings.Builder
	n := 0
	for _, t := range order {
		if refs[t] > 1 && len(t.Args) > 0 {
			var b strings.Builder
			t.write(&b, names)
			n++
			nm := fmt.Sprintf("$d%d", n)
			fmt.Fprintf(&sb, "(define-fun %s () %s %s)\n", nm, t.Sort, b.String())
			names[t] = nm
		}
	}
	for _, t := range ts {
		var b strings.Builder
		t.write(&b, names)
		fmt.Fprintf(&sb, "(assert %s)\n", b.String())
	}
	var vnames []string
	for _, t := range values {
		var b strings.Builder
		t.write(&b, names)
		vnames = append(vnames, b.String())
	}
	return sb.String(), vnames
}
