package smt

import (
	"fmt"
	"regexp"
	"regexp/syntax"
)

// Regex translation: Go pattern -> RegLan over the ASCII alphabet 0..0x7f.
// Bytes 0xfe / 0xff are reserved as begin / end markers for the general
// search-semantics encoding (inputs are constrained to ASCII by the caller,
// see ASCII()).

const (
	MarkB = "\xfe"
	MarkE = "\xff"
)

var (
	reAllChar = App("re.range", RegLan, StrC("\x00"), StrC("\x7f"))
	// SigmaStar is every ASCII string.
	SigmaStar = App("re.*", RegLan, reAllChar)
	reNone    = App("re.none", RegLan)
	reEps     = App("str.to_re", RegLan, StrC(""))
)

// ASCII is the constraint that s consists of 7-bit characters.
func ASCII(s *Term) *Term { return InRe(s, SigmaStar) }

func ReConcat(as ...*Term) *Term {
	var out []*Term
	for _, a := range as {
		if a == reEps {
			continue
		}
		if a == reNone {
			return reNone
		}
		if a.Op == "re.++" {
			out = append(out, a.Args...)
		} else {
			out = append(out, a)
		}
	}
	// merge adjacent literals
	var m []*Term
	for _, a := range out {
		if a.Op == "str.to_re" && len(m) > 0 && m[len(m)-1].Op == "str.to_re" {
			m[len(m)-1] = App("str.to_re", RegLan, StrC(m[len(m)-1].Args[0].S+a.Args[0].S))
			continue
		}
		m = append(m, a)
	}
	switch len(m) {
	case 0:
		return reEps
	case 1:
		return m[0]
	}
	return App("re.++", RegLan, m...)
}

func ReUnion(as ...*Term) *Term {
	var out []*Term
	seen := map[*Term]bool{}
	for _, a := range as {
		if a == reNone || seen[a] {
			continue
		}
		if a.Op == "re.union" {
			for _, x := range a.Args {
				if !seen[x] {
					seen[x] = true
					out = append(out, x)
				}
			}
			continue
		}
		seen[a] = true
		out = append(out, a)
	}
	switch len(out) {
	case 0:
		return reNone
	case 1:
		return out[0]
	}
	return App("re.union", RegLan, out...)
}

func ReStar(a *Term) *Term {
	if a == reEps || a == reNone {
		return reEps
	}
	if a.Op == "re.*" {
		return a
	}
	return App("re.*", RegLan, a)
}
func RePlus(a *Term) *Term { return ReConcat(a, ReStar(a)) }
func ReOpt(a *Term) *Term  { return ReUnion(reEps, a) }
func ReLit(s string) *Term {
	if s == "" {
		return reEps
	}
	return App("str.to_re", RegLan, StrC(s))
}
func ReRange(lo, hi byte) *Term {
	if lo == hi {
		return ReLit(string([]byte{lo}))
	}
	return App("re.range", RegLan, StrC(string([]byte{lo})), StrC(string([]byte{hi})))
}
func ReComp(a *Term) *Term     { return App("re.comp", RegLan, a) }
func ReInter(a, b *Term) *Term { return App("re.inter", RegLan, a, b) }
func ReLoop(a *Term, min, max int) *Term {
	if min == 0 && max == 0 {
		return reEps
	}
	if min == 1 && max == 1 {
		return a
	}
	return App(fmt.Sprintf("(_ re.loop %d %d)", min, max), RegLan, a)
}

// ReCI is the case-insensitive language of an ASCII literal.
func ReCI(s string) *Term {
	var parts []*Term
	for i := 0; i < len(s); i++ {
		c := s[i]
		switch {
		case c >= 'a' && c <= 'z':
			parts = append(parts, ReUnion(ReLit(string([]byte{c})), ReLit(string([]byte{c - 32}))))
		case c >= 'A' && c <= 'Z':
			parts = append(parts, ReUnion(ReLit(string([]byte{c + 32})), ReLit(string([]byte{c}))))
		default:
			parts = append(parts, ReLit(string([]byte{c})))
		}
	}
	return ReConcat(parts...)
}

// Known is a translated Go regexp.
type Known struct {
	Src string
	Re  *regexp.Regexp
	// Body is the language with ^ mapped to MarkB and $ to MarkE.
	Body *Term
	// Full, when non-nil, is a language L such that MatchString(s) <=> s in L
	// for ASCII s (available when anchors occur only in simple positions).
	Full        *Term
	Unsupported string
}

type rxCtx struct {
	anchors int
	bad     string
}

func (c *rxCtx) tr(re *syntax.Regexp) *Term {
	switch re.Op {
	case syntax.OpNoMatch:
		return reNone
	case syntax.OpEmptyMatch:
		return reEps
	case syntax.OpLiteral:
		var parts []*Term
		for _, r := range re.Rune {
			if r > 0x7f {
				// cannot occur in an ASCII input
				return reNone
			}
			if re.Flags&syntax.FoldCase != 0 {
				parts = append(parts, ReCI(string([]byte{byte(r)})))
			} else {
				parts = append(parts, ReLit(string([]byte{byte(r)})))
			}
		}
		return ReConcat(parts...)
	case syntax.OpCharClass:
		var alts []*Term
		for i := 0; i+1 < len(re.Rune); i += 2 {
			lo, hi := re.Rune[i], re.Rune[i+1]
			if lo > 0x7f {
				continue
			}
			if hi > 0x7f {
				hi = 0x7f
			}
			alts = append(alts, ReRange(byte(lo), byte(hi)))
		}
		return ReUnion(alts...)
	case syntax.OpAnyCharNotNL:
		return ReUnion(ReRange(0, 9), ReRange(11, 0x7f))
	case syntax.OpAnyChar:
		return reAllChar
	case syntax.OpBeginText:
		c.anchors++
		return ReLit(MarkB)
	case syntax.OpEndText:
		c.anchors++
		return ReLit(MarkE)
	case syntax.OpBeginLine, syntax.OpEndLine:
		c.bad = "multi-line anchors"
		return reNone
	case syntax.OpWordBoundary, syntax.OpNoWordBoundary:
		c.bad = "word boundary"
		return reNone
	case syntax.OpCapture:
		return c.tr(re.Sub[0])
	case syntax.OpStar:
		before := c.anchors
		r := ReStar(c.tr(re.Sub[0]))
		if c.anchors != before {
			c.bad = "anchor under repetition"
		}
		return r
	case syntax.OpPlus:
		before := c.anchors
		r := RePlus(c.tr(re.Sub[0]))
		if c.anchors != before {
			c.bad = "anchor under repetition"
		}
		return r
	case syntax.OpQuest:
		before := c.anchors
		r := ReOpt(c.tr(re.Sub[0]))
		if c.anchors != before {
			c.bad = "anchor under repetition"
		}
		return r
	case syntax.OpRepeat:
		before := c.anchors
		sub := c.tr(re.Sub[0])
		if c.anchors != before {
			c.bad = "anchor under repetition"
		}
		if re.Max < 0 {
			return ReConcat(ReLoop(sub, re.Min, re.Min), ReStar(sub))
		}
		return ReLoop(sub, re.Min, re.Max)
	case syntax.OpConcat:
		var parts []*Term
		for _, s := range re.Sub {
			parts = append(parts, c.tr(s))
		}
		return ReConcat(parts...)
	case syntax.OpAlternate:
		var parts []*Term
		for _, s := range re.Sub {
			parts = append(parts, c.tr(s))
		}
		return ReUnion(parts...)
	}
	c.bad = "unsupported op " + re.Op.String()
	return reNone
}

var knownCache = map[string]*Known{}

// Translate parses a Go pattern with the real regexp/syntax parser and
// builds its languages.
func Translate(src string) *Known {
	mu.Lock()
	if k, ok := knownCache[src]; ok {
		mu.Unlock()
		return k
	}
	mu.Unlock()
	k := &Known{Src: src}
	re, err := regexp.Compile(src)
	if err != nil {
		k.Unsupported = "does not compile: " + err.Error()
		return k
	}
	k.Re = re
	tree, err := syntax.Parse(src, syntax.Perl)
	if err != nil {
		k.Unsupported = err.Error()
		return k
	}
	// Simplify would rewrite {n,m}; we keep the parse tree as is.
	c := &rxCtx{}
	// fast path: ^body$ / ^body / body$ / body with no inner anchors
	if tree.Op == syntax.OpConcat || true {
		subs := []*syntax.Regexp{tree}
		if tree.Op == syntax.OpConcat {
			subs = tree.Sub
		}
		begin, end := false, false
		if len(subs) > 0 && subs[0].Op == syntax.OpBeginText {
			begin = true
			subs = subs[1:]
		}
		if len(subs) > 0 && subs[len(subs)-1].Op == syntax.OpEndText {
			end = true
			subs = subs[:len(subs)-1]
		}
		c2 := &rxCtx{}
		var parts []*Term
		for _, s := range subs {
			parts = append(parts, c2.tr(s))
		}
		if c2.anchors == 0 && c2.bad == "" {
			body := ReConcat(parts...)
			if !begin {
				body = ReConcat(SigmaStar, body)
			}
			if !end {
				body = ReConcat(body, SigmaStar)
			}
			k.Full = WithAux(body, "full:"+src, re.MatchString)
		}
	}
	k.Body = c.tr(tree)
	if c.bad != "" {
		k.Unsupported = c.bad
	}
	mu.Lock()
	knownCache[src] = k
	mu.Unlock()
	return k
}

// Match is the formula for re.MatchString(s), for ASCII s.
func (k *Known) Match(s *Term) *Term {
	if s.IsConst() && k.Re != nil {
		return BoolC(k.Re.MatchString(s.S))
	}
	if k.Full != nil {
		return InRe(s, k.Full)
	}
	search := ReConcat(
		ReUnion(reEps, ReConcat(ReLit(MarkB), SigmaStar)),
		k.Body,
		ReUnion(reEps, ReConcat(SigmaStar, ReLit(MarkE))))
	return App("str.in_re", Bool, Concat(StrC(MarkB), s, StrC(MarkE)), search)
}
