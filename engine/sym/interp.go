package sym

import (
	"fmt"
	"go/constant"
	"go/token"
	"go/types"
	"os"
	"strconv"
	"strings"
	"sync"
	"time"

	"bmsym/smt"

	"golang.org/x/tools/go/ssa"
)

// Alt is one outcome of an instruction. Cond nil means true.
type Alt struct {
	Cond *smt.Term
	Ret  Value           // value bound to the instruction (if it is a value)
	Eff  func(st *State) // optional effect, applied to the (cloned) target state before Ret is bound
	Jump *ssa.BasicBlock // for If: successor to jump to (Ret ignored)
	Stop int             // non-zero: terminate the path with this status
	Why  string
	Push *Frame // enter a call: frame to push
}

type Config struct {
	MaxAttrs      int
	TokenNames    []string // if set, tag names are drawn from this finite set (fork) instead of being symbolic
	UnwindSym     int
	MaxDepth      int
	SplitMax      int // K: max parts for Split/Fields on symbolic strings
	Stubs         map[string]string
	BranchTimeout time.Duration
	Workers       int
	// Loop havoc
	HavocFn     string
	OnLoopEntry func(in *Interp, st *State)
	MapOrders   bool // explore all iteration orders of maps with <=3 entries
	EnterExtra  map[string]bool
	Trace       bool
	NoFeasCheck bool
	ForceFeas   bool // keep solver feasibility checks at branches even where drivers default to none
	TokenASCII  bool
	MaxStates   int
	DeclsMax    int // d: max declarations from ParseDeclarations
	URLSummary  bool
	OnCall      func(in *Interp, st *State, name string, args []Value)
	Intercept   map[string]Model
	Params      map[string]int // harness parameters read with verifParam
	// Summaries replace calls of pure functions by a term; each summary must
	// have been validated against the function's body (see checks.proveSummary).
	Summaries map[string]func(in *Interp, st *State, args []Value) Value
}

type Model func(in *Interp, st *State, call *ssa.CallCommon, args []Value) []Alt

type Interp struct {
	Prog     *ssa.Program
	Pkgs     map[string]*ssa.Package
	Analysed map[*ssa.Package]bool
	Cfg      Config
	Models   map[string]Model

	mu       sync.Mutex
	nextObj  int
	objNames map[int]string
	globals  map[*ssa.Global]int
	BaseHeap map[int]Value

	havocBlock  *ssa.BasicBlock
	baseMax     int
	harnessObjs map[int]bool // globals declared in harness files: not shared state of the library

	Obligations []*Obligation
	Done        []*State
	feasCache   map[*smt.Term]bool
	Stats       struct {
		States, Forks, FeasQueries, FeasUnsat, FeasUnknown, Instrs int64
	}
	nextState int
	workers   chan *smt.Worker
}

func New(prog *ssa.Program, pkgs []*ssa.Package, cfg Config) *Interp {
	in := &Interp{Prog: prog, Pkgs: map[string]*ssa.Package{}, Analysed: map[*ssa.Package]bool{}, Cfg: cfg,
		objNames: map[int]string{}, harnessObjs: map[int]bool{}, globals: map[*ssa.Global]int{}, BaseHeap: map[int]Value{}, feasCache: map[*smt.Term]bool{}}
	for _, p := range pkgs {
		in.Pkgs[p.Pkg.Path()] = p
		in.Analysed[p] = true
	}
	if in.Cfg.UnwindSym == 0 {
		in.Cfg.UnwindSym = 8
	}
	if in.Cfg.SplitMax == 0 {
		in.Cfg.SplitMax = 3
	}
	if in.Cfg.BranchTimeout == 0 {
		in.Cfg.BranchTimeout = 2 * time.Second
	}
	if in.Cfg.Workers == 0 {
		in.Cfg.Workers = 8
	}
	if n, err := strconv.Atoi(os.Getenv("BMSYM_WORKERS")); err == nil && n > 0 {
		in.Cfg.Workers = n
	}
	if os.Getenv("BMSYM_NOFEAS") != "" {
		in.Cfg.NoFeasCheck = true
	}
	if os.Getenv("BMSYM_TRACE") != "" {
		in.Cfg.Trace = true
	}
	in.Models = map[string]Model{}
	registerModels(in)
	in.workers = make(chan *smt.Worker, in.Cfg.Workers)
	for i := 0; i < in.Cfg.Workers; i++ {
		in.workers <- smt.NewWorker()
	}
	return in
}

func (in *Interp) Close() {
	for i := 0; i < in.Cfg.Workers; i++ {
		w := <-in.workers
		w.Close()
	}
}

// WithWorker lends a solver worker.
func (in *Interp) WithWorker(f func(w *smt.Worker)) {
	w := <-in.workers
	defer func() { in.workers <- w }()
	f(w)
}

// InitGlobals allocates globals of analysed packages and runs their package
// initialisers concretely. The resulting heap is the base of every run.
func (in *Interp) InitGlobals() error {
	st := &State{Heap: in.BaseHeap, Ghost: map[string]Value{}, Calls: map[string]int{}}
	for _, p := range in.Pkgs {
		for _, m := range p.Members {
			if g, ok := m.(*ssa.Global); ok {
				id := in.alloc(st, in.zero(g.Type().(*types.Pointer).Elem()))
				in.globals[g] = id
				in.objNames[id] = g.String()
				if pos := in.Prog.Fset.Position(g.Pos()); strings.Contains(pos.Filename, "zz_verif_") {
					in.harnessObjs[id] = true
				}
			}
		}
	}
	for _, p := range in.Pkgs {
		fn := p.Func("init")
		if fn == nil {
			continue
		}
		fin, err := in.RunFrom(st, fn, nil)
		if err != nil {
			return err
		}
		if len(fin) != 1 || fin[0].Status != Finished {
			reason := ""
			if len(fin) > 0 {
				reason = fin[0].Reason
			}
			return fmt.Errorf("package init of %s did not run concretely: %d paths %s", p.Pkg.Path(), len(fin), reason)
		}
		st = fin[0]
		st.Frames = nil
		st.Status = Running
	}
	in.BaseHeap = st.Heap
	in.baseMax = in.nextObj
	in.Done = nil
	in.Obligations = nil
	return nil
}

// NewState returns a fresh state over the base heap.
func (in *Interp) NewState() *State {
	st := &State{Heap: map[int]Value{}, Ghost: map[string]Value{}, Calls: map[string]int{}}
	for k, v := range in.BaseHeap {
		st.Heap[k] = v
	}
	return st
}

func (in *Interp) newFrame(fn *ssa.Function, args []Value, free []Value) *Frame {
	fr := &Frame{Fn: fn, Env: map[ssa.Value]Value{}, SymVis: map[int]int{}}
	if len(fn.Blocks) == 0 {
		panic("newFrame: no body for " + fn.String())
	}
	fr.Block = fn.Blocks[0]
	for i, p := range fn.Params {
		fr.Env[p] = args[i]
	}
	for i, fv := range fn.FreeVars {
		fr.Env[fv] = free[i]
	}
	return fr
}

// RunFrom explores all paths of fn(args) starting in state st and returns the
// terminal states.
func (in *Interp) RunFrom(st *State, fn *ssa.Function, args []Value) ([]*State, error) {
	st.Frames = append(st.Frames, in.newFrame(fn, args, nil))
	return in.Explore(st)
}

// Explore runs the worklist to completion.
func (in *Interp) Explore(init *State) ([]*State, error) {
	var (
		mu      sync.Mutex
		work    = []*State{init}
		active  int
		done    []*State
		cond    = sync.NewCond(&mu)
		firstEr error
	)
	nw := in.Cfg.Workers
	var wg sync.WaitGroup
	for i := 0; i < nw; i++ {
		wg.Add(1)
		go func() {
			defer wg.Done()
			for {
				mu.Lock()
				for len(work) == 0 && active > 0 && firstEr == nil {
					cond.Wait()
				}
				if firstEr != nil || (len(work) == 0 && active == 0) {
					mu.Unlock()
					cond.Broadcast()
					return
				}
				st := work[len(work)-1]
				work = work[:len(work)-1]
				active++
				mu.Unlock()

				var spawned []*State
				err := in.runState(st, &spawned)

				mu.Lock()
				active--
				if err != nil && firstEr == nil {
					firstEr = err
				}
				work = append(work, spawned...)
				if st.Status != Running {
					done = append(done, st)
					if os.Getenv("BMSYM_PROGRESS") == "2" {
						fmt.Fprintf(os.Stderr, "end s%d: status=%d %s depth=%d pc=%d\n", st.ID, st.Status, st.Reason, st.Depth, len(st.PC))
					}
					if os.Getenv("BMSYM_PROGRESS") != "" && len(done)%50 == 0 {
						fmt.Fprintf(os.Stderr, "progress: %d paths done, %d queued, stats %+v\n", len(done), len(work), in.Stats)
					}
				}
				if in.Cfg.MaxStates > 0 && len(done)+len(work) > in.Cfg.MaxStates && firstEr == nil {
					firstEr = fmt.Errorf("state limit %d exceeded (path explosion)", in.Cfg.MaxStates)
				}
				mu.Unlock()
				cond.Broadcast()
			}
		}()
	}
	wg.Wait()
	return done, firstEr
}

func (in *Interp) runState(st *State, spawned *[]*State) (err error) {
	defer func() {
		if r := recover(); r != nil {
			if os.Getenv("BMSYM_PANIC") != "" {
				panic(r)
			}
			st.Status = Unsupported
			st.Reason = fmt.Sprintf("engine: %v at %s", r, in.where(st))
		}
	}()
	for st.Status == Running {
		fr := st.top()
		if fr.IP >= len(fr.Block.Instrs) {
			return fmt.Errorf("fell off block in %s", fr.Fn)
		}
		instr := fr.Block.Instrs[fr.IP]
		in.Stats.Instrs++
		if in.Cfg.Trace {
			fmt.Fprintf(os.Stderr, "[s%d d%d] %s: %s\n", st.ID, len(st.Frames), fr.Fn.Name(), instr)
		}
		alts := in.exec(st, fr, instr)
		if alts == nil {
			continue
		}
		// filter feasibility
		var feas []Alt
		for _, a := range alts {
			if a.Cond == nil || a.Cond.IsTrue() {
				feas = append(feas, a)
				continue
			}
			if a.Cond.IsFalse() {
				continue
			}
			if in.feasible(st, a.Cond) {
				feas = append(feas, a)
			}
		}
		if len(feas) == 0 {
			st.Status = Cut
			st.Reason = "no feasible alternative at " + in.where(st)
			return nil
		}
		if len(feas) > 1 {
			in.mu.Lock()
			in.Stats.Forks += int64(len(feas) - 1)
			in.mu.Unlock()
		}
		for i := 0; i < len(feas)-1; i++ {
			c := st.clone()
			in.mu.Lock()
			in.nextState++
			c.ID = in.nextState
			in.mu.Unlock()
			c.Depth++
			in.apply(c, instr, feas[i])
			*spawned = append(*spawned, c)
		}
		if len(feas) > 1 {
			st.Depth++
		}
		in.apply(st, instr, feas[len(feas)-1])
		if in.Cfg.MaxDepth > 0 && st.Depth > in.Cfg.MaxDepth {
			st.Status = Cut
			st.Reason = "fork depth limit"
			st.Assumed = append(st.Assumed, "fork-depth-limit")
		}
	}
	return nil
}

func (in *Interp) apply(st *State, instr ssa.Instruction, a Alt) {
	st.assume(a.Cond)
	if a.Eff != nil {
		a.Eff(st)
	}
	if st.Status != Running {
		return
	}
	if a.Stop != 0 {
		st.Status = a.Stop
		st.Reason = a.Why
		return
	}
	fr := st.top()
	if a.Push != nil {
		st.Frames = append(st.Frames, a.Push)
		return
	}
	if a.Jump != nil {
		in.jump(st, fr, a.Jump)
		return
	}
	if v, ok := instr.(ssa.Value); ok {
		if _, skip := a.Ret.(retFromEnv); !skip {
			fr.Env[v] = a.Ret
		}
	}
	fr.IP++
}

// feasible asks whether pc ∧ c is satisfiable; unknown counts as feasible.
func (in *Interp) feasible(st *State, c *smt.Term) bool {
	full := smt.And(append(append([]*smt.Term{}, st.PC...), c)...)
	if full.IsFalse() {
		return false
	}
	if full.IsTrue() {
		return true
	}
	if in.Cfg.NoFeasCheck {
		return true
	}
	in.mu.Lock()
	if r, ok := in.feasCache[full]; ok {
		in.mu.Unlock()
		return r
	}
	in.Stats.FeasQueries++
	in.mu.Unlock()
	var res smt.Result
	in.WithWorker(func(w *smt.Worker) {
		res = w.Check(&smt.Query{Name: "feas", Asserts: in.withSide(st, []*smt.Term{full}), Timeout: in.Cfg.BranchTimeout})
	})
	ok := res.Status != smt.Unsat
	in.mu.Lock()
	in.feasCache[full] = ok
	if res.Status == smt.Unsat {
		in.Stats.FeasUnsat++
	} else if res.Status == smt.Unknown {
		in.Stats.FeasUnknown++
	}
	in.mu.Unlock()
	return ok
}

// withSide adds the global side conditions (ASCII domain of free string
// variables, UF axioms instantiated for the applications that occur).
func (in *Interp) withSide(st *State, as []*smt.Term) []*smt.Term {
	return append(as, SideConditions(as)...)
}

func (in *Interp) get(fr *Frame, v ssa.Value) Value {
	switch x := v.(type) {
	case *ssa.Const:
		return in.constVal(x)
	case *ssa.Global:
		id, ok := in.globals[x]
		if !ok {
			return in.foreignGlobal(x)
		}
		return Ptr{Obj: id}
	case *ssa.Function:
		return &FuncV{Fn: x}
	case *ssa.Builtin:
		return &FuncV{Special: "builtin:" + x.Name()}
	}
	r, ok := fr.Env[v]
	if !ok {
		panic(fmt.Sprintf("unbound SSA value %s (%T) in %s", v.Name(), v, fr.Fn))
	}
	return r
}

func (in *Interp) foreignGlobal(g *ssa.Global) Value {
	// pointer to a pseudo object identified by name; loads are special-cased.
	return Ptr{Obj: -1, Path: g.String()}
}

func (in *Interp) constVal(c *ssa.Const) Value {
	t := c.Type()
	if c.Value == nil {
		return in.zero(t)
	}
	switch u := t.Underlying().(type) {
	case *types.Basic:
		switch {
		case u.Info()&types.IsBoolean != 0:
			return smt.BoolC(constant.BoolVal(c.Value))
		case u.Info()&types.IsInteger != 0:
			i, _ := constant.Int64Val(constant.ToInt(c.Value))
			return smt.IntC(i)
		case u.Info()&types.IsString != 0:
			return smt.StrC(constant.StringVal(c.Value))
		}
	}
	return &OpaqueV{Kind: "const:" + c.String()}
}

func (in *Interp) jump(st *State, fr *Frame, to *ssa.BasicBlock) {
	from := fr.Block
	// loop havoc hook
	if in.havocBlock != nil && to == in.havocBlock {
		if st.LoopPre == nil {
			st.LoopPre = map[string]Value{}
			init := map[string]Value{}
			idx := predIndex(to, from)
			vals := map[*ssa.Phi]Value{}
			for _, ins := range to.Instrs {
				phi, ok := ins.(*ssa.Phi)
				if !ok {
					break
				}
				name := phi.Comment
				if name == "" {
					name = phi.Name()
				}
				init[name] = in.get(fr, phi.Edges[idx])
				hv := in.havocValue(st, name, phi.Type())
				st.LoopPre[name] = hv
				vals[phi] = hv
			}
			st.Ghost["loopInit"] = init
			// the destination buffer of sanitizeWithBuff holds whatever earlier
			// iterations wrote: havoc it too
			for id, cell := range st.Heap {
				if _, ok := cell.(*BufObj); ok && id > in.baseMax {
					st.Heap[id] = &BufObj{S: st.fresh("pre.buffer", smt.String)}
				}
			}
			for p, v := range vals {
				fr.Env[p] = v
			}
			fr.Prev, fr.Block = from, to
			fr.IP = firstNonPhi(to)
			if in.Cfg.OnLoopEntry != nil {
				in.Cfg.OnLoopEntry(in, st)
			}
			return
		}
		// back edge: record post state and stop
		post := map[string]Value{}
		idx := predIndex(to, from)
		for _, ins := range to.Instrs {
			phi, ok := ins.(*ssa.Phi)
			if !ok {
				break
			}
			name := phi.Comment
			if name == "" {
				name = phi.Name()
			}
			post[name] = in.get(fr, phi.Edges[idx])
		}
		st.LoopPost = post
		st.Status = StepEnd
		return
	}
	idx := predIndex(to, from)
	var vals []Value
	var phis []*ssa.Phi
	for _, ins := range to.Instrs {
		phi, ok := ins.(*ssa.Phi)
		if !ok {
			break
		}
		phis = append(phis, phi)
		vals = append(vals, in.get(fr, phi.Edges[idx]))
	}
	for i, p := range phis {
		fr.Env[p] = vals[i]
	}
	fr.Prev, fr.Block = from, to
	fr.IP = len(phis)
}

func firstNonPhi(b *ssa.BasicBlock) int {
	for i, ins := range b.Instrs {
		if _, ok := ins.(*ssa.Phi); !ok {
			return i
		}
	}
	return len(b.Instrs)
}

func predIndex(to, from *ssa.BasicBlock) int {
	for i, p := range to.Preds {
		if p == from {
			return i
		}
	}
	panic("predIndex: not a predecessor")
}

func (in *Interp) havocValue(st *State, name string, t types.Type) Value {
	switch u := t.Underlying().(type) {
	case *types.Basic:
		switch {
		case u.Info()&types.IsBoolean != 0:
			return st.fresh("pre."+name, smt.Bool)
		case u.Info()&types.IsInteger != 0:
			return st.fresh("pre."+name, smt.Int)
		case u.Info()&types.IsString != 0:
			return st.fresh("pre."+name, smt.String)
		}
	case *types.Slice:
		if b, ok := u.Elem().Underlying().(*types.Basic); ok && b.Info()&types.IsString != 0 {
			l := st.fresh("pre."+name+".len", smt.Int)
			st.assume(smt.Le(smt.IntC(0), l))
			return &SymSliceV{Arr: st.fresh("pre."+name+".arr", smt.ArrIS), Len: l}
		}
	}
	panic("cannot havoc loop variable " + name + " of type " + t.String())
}

// SetHavocLoop selects the loop in fn whose header dominates the first call
// to a function whose String() contains callee.
func (in *Interp) SetHavocLoop(fn *ssa.Function, callee string) error {
	for _, b := range fn.Blocks {
		for _, ins := range b.Instrs {
			c, ok := ins.(ssa.CallInstruction)
			if !ok {
				continue
			}
			if sc := c.Common().StaticCallee(); sc != nil && strings.Contains(sc.String(), callee) {
				// walk up the dominator tree to a block with phis and >=2 preds
				for x := b; x != nil; x = x.Idom() {
					if len(x.Preds) >= 2 {
						if _, ok := x.Instrs[0].(*ssa.Phi); ok {
							in.havocBlock = x
							return nil
						}
					}
				}
				return fmt.Errorf("no loop header with phi nodes dominates %s in %s", callee, fn)
			}
		}
	}
	return fmt.Errorf("no call to %s in %s", callee, fn)
}

func (in *Interp) ClearHavocLoop() { in.havocBlock = nil }

// safety records a built-in safety obligation and assumes it on the
// continuing path. Returns false if the condition is definitely violated.
func (in *Interp) safety(st *State, cond *smt.Term, id string) bool {
	if cond.IsTrue() {
		return true
	}
	ob := &Obligation{ID: id, Kind: "safety", PC: append([]*smt.Term(nil), st.PC...), Cond: cond, Where: in.where(st), PathID: st.ID, Ghost: st.Ghost, Pre: st.LoopPre}
	in.mu.Lock()
	in.Obligations = append(in.Obligations, ob)
	in.mu.Unlock()
	if cond.IsFalse() {
		st.Status = Panicked
		st.Reason = id + " at " + in.where(st)
		return false
	}
	st.assume(cond)
	return true
}

func (in *Interp) AddObligation(ob *Obligation) {
	in.mu.Lock()
	in.Obligations = append(in.Obligations, ob)
	in.mu.Unlock()
}

var _ = token.ADD

// GlobalValue returns the value of a package-level variable after package
// initialisation (from the base heap).
func (in *Interp) GlobalValue(pkgPath, name string) (Value, error) {
	p, ok := in.Pkgs[pkgPath]
	if !ok {
		return nil, fmt.Errorf("package %s not loaded", pkgPath)
	}
	g, ok := p.Members[name].(*ssa.Global)
	if !ok {
		return nil, fmt.Errorf("no package-level variable %s in %s", name, pkgPath)
	}
	return in.BaseHeap[in.globals[g]], nil
}
