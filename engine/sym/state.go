package sym

import (
	"fmt"
	"go/types"
	"sort"
	"strings"

	"bmsym/smt"

	"golang.org/x/tools/go/ssa"
)

type Frame struct {
	Fn     *ssa.Function
	Block  *ssa.BasicBlock
	Prev   *ssa.BasicBlock
	IP     int
	Env    map[ssa.Value]Value
	Call   ssa.Value // call instruction in the caller receiving the result (nil for entry)
	SymVis map[int]int
	// OnReturn, if set, post-processes the return value (used by engine-side
	// stubs that wrap a harness function call).
	OnReturn func(st *State, ret Value) Value
}

// Status of a path.
const (
	Running = iota
	Finished
	Panicked
	Cut     // assumption false / unwinding bound / engine limit
	StepEnd // reached the back edge of the havocked loop
	Unsupported
)

// Write is one observed call of the destination writer.
type Write struct {
	S      *smt.Term
	Kind   string // "WriteString" / "Write"
	Failed bool
}

// Failure is an assertion (harness or built-in safety) whose negation was
// satisfiable on this path.
type Obligation struct {
	ID     string
	Kind   string // "assert", "safety", "effect", "reach"
	PC     []*smt.Term
	Cond   *smt.Term // must hold (assert/safety) or must be reachable (reach: Cond==true)
	Where  string
	Ghost  map[string]Value
	PathID int
	Pre    map[string]Value // havocked loop state of the path, if any
}

type State struct {
	Frames  []*Frame
	Heap    map[int]Value
	PC      []*smt.Term
	Status  int
	Reason  string
	Ret     Value
	ID      int
	Depth   int // number of forks on this path
	Writes  []Write
	Tokens  []*TokenInfo
	Ghost   map[string]Value
	Assumed []string // recorded cuts (out-of-bound assumptions)
	// SharedBelow: object ids below this are pre-existing after verifFreeze.
	SharedBelow int
	Effects     []string
	Trace       []string
	// Havoc bookkeeping for loop-step extraction
	LoopPre  map[string]Value
	LoopPost map[string]Value
	Calls    map[string]int
	Fresh    []*smt.Term // fresh variables introduced on this path
}

type TokenInfo struct {
	Kind  string // Error/Text/StartTag/EndTag/SelfClosing/Comment/Doctype
	Data  *smt.Term
	Keys  []*smt.Term
	Vals  []*smt.Term
	ErrIs string // for Error: "EOF" or "other"
}

func (st *State) top() *Frame { return st.Frames[len(st.Frames)-1] }

func (st *State) clone() *State {
	n := *st
	n.Frames = make([]*Frame, len(st.Frames))
	for i, f := range st.Frames {
		nf := *f
		nf.Env = make(map[ssa.Value]Value, len(f.Env)+8)
		for k, v := range f.Env {
			nf.Env[k] = v
		}
		nf.SymVis = make(map[int]int, len(f.SymVis))
		for k, v := range f.SymVis {
			nf.SymVis[k] = v
		}
		n.Frames[i] = &nf
	}
	n.Heap = make(map[int]Value, len(st.Heap)+8)
	for k, v := range st.Heap {
		n.Heap[k] = v
	}
	n.PC = append([]*smt.Term(nil), st.PC...)
	n.Writes = append([]Write(nil), st.Writes...)
	n.Tokens = append([]*TokenInfo(nil), st.Tokens...)
	n.Assumed = append([]string(nil), st.Assumed...)
	n.Effects = append([]string(nil), st.Effects...)
	n.Trace = append([]string(nil), st.Trace...)
	n.Fresh = append([]*smt.Term(nil), st.Fresh...)
	n.Ghost = make(map[string]Value, len(st.Ghost))
	for k, v := range st.Ghost {
		n.Ghost[k] = v
	}
	n.Calls = make(map[string]int, len(st.Calls))
	for k, v := range st.Calls {
		n.Calls[k] = v
	}
	if st.LoopPre != nil {
		n.LoopPre = map[string]Value{}
		for k, v := range st.LoopPre {
			n.LoopPre[k] = v
		}
	}
	return &n
}

func (st *State) assume(c *smt.Term) {
	if c == nil || c.IsTrue() {
		return
	}
	st.PC = append(st.PC, c)
}

func (st *State) PCTerm() *smt.Term { return smt.And(st.PC...) }

func (st *State) fresh(prefix, sort string) *smt.Term {
	v := smt.Fresh(prefix, sort)
	st.Fresh = append(st.Fresh, v)
	return v
}

// ---- heap access

func (in *Interp) alloc(st *State, v Value) int {
	in.mu.Lock()
	in.nextObj++
	id := in.nextObj
	in.mu.Unlock()
	st.Heap[id] = v
	return id
}

func getPath(v Value, path []int) Value {
	for _, i := range path {
		switch x := v.(type) {
		case *StructV:
			v = x.F[i]
		case *ArrayV:
			v = x.E[i]
		default:
			panic(fmt.Sprintf("getPath through %T", v))
		}
	}
	return v
}

func setPath(v Value, path []int, nv Value) Value {
	if len(path) == 0 {
		return nv
	}
	i := path[0]
	switch x := v.(type) {
	case *StructV:
		c := &StructV{F: append([]Value(nil), x.F...)}
		c.F[i] = setPath(x.F[i], path[1:], nv)
		return c
	case *ArrayV:
		c := &ArrayV{E: append([]Value(nil), x.E...)}
		c.E[i] = setPath(x.E[i], path[1:], nv)
		return c
	}
	panic(fmt.Sprintf("setPath through %T", v))
}

func (in *Interp) load(st *State, p Ptr) Value {
	if p.Sym != nil {
		return smt.Select(p.Sym.Arr, p.Sym.Idx)
	}
	root, ok := st.Heap[p.Obj]
	if !ok {
		panic(fmt.Sprintf("load of unknown object %d", p.Obj))
	}
	return getPath(root, pathElems(p.Path))
}

func (in *Interp) store(st *State, p Ptr, v Value) {
	if p.Sym != nil {
		panic("store through symbolic slice element")
	}
	if p.Obj < st.SharedBelow && st.SharedBelow > 0 && !in.harnessObjs[p.Obj] {
		st.Effects = append(st.Effects, fmt.Sprintf("store to pre-existing object %d%s (%s) at %s", p.Obj, p.Path, in.objName(p.Obj), in.where(st)))
	}
	root := st.Heap[p.Obj]
	st.Heap[p.Obj] = setPath(root, pathElems(p.Path), v)
}

func (in *Interp) objName(id int) string {
	if n, ok := in.objNames[id]; ok {
		return n
	}
	return "?"
}

func (in *Interp) where(st *State) string {
	if len(st.Frames) == 0 {
		return "?"
	}
	fr := st.top()
	pos := ""
	if fr.IP < len(fr.Block.Instrs) {
		p := in.Prog.Fset.Position(fr.Block.Instrs[fr.IP].Pos())
		if p.IsValid() {
			f := p.Filename
			if i := strings.LastIndex(f, "/"); i >= 0 {
				f = f[i+1:]
			}
			pos = fmt.Sprintf("%s:%d", f, p.Line)
		}
	}
	return fmt.Sprintf("%s@%s", fr.Fn.String(), pos)
}

// ---- maps

func valueEq(a, b Value) *smt.Term {
	switch x := a.(type) {
	case *smt.Term:
		return smt.Eq(x, b.(*smt.Term))
	case Ptr:
		y := b.(Ptr)
		return smt.BoolC(x.Obj == y.Obj && x.Path == y.Path)
	case IfaceV:
		y := b.(IfaceV)
		if x.T == nil || y.T == nil {
			return smt.BoolC(x.T == nil && y.T == nil)
		}
		if !types.Identical(x.T, y.T) {
			return smt.False
		}
		return valueEq(x.V, y.V)
	case *OpaqueV:
		y, ok := b.(*OpaqueV)
		return smt.BoolC(ok && x.Kind == y.Kind && x.ID == y.ID)
	case *StructV:
		y := b.(*StructV)
		var cs []*smt.Term
		for i := range x.F {
			cs = append(cs, valueEq(x.F[i], y.F[i]))
		}
		return smt.And(cs...)
	case MapV:
		return smt.BoolC(x.Obj == b.(MapV).Obj)
	case SliceV:
		y := b.(SliceV)
		return smt.BoolC(x.Arr == 0 && y.Arr == 0)
	case *FuncV:
		y := b.(*FuncV)
		return smt.BoolC(x == nil && y == nil)
	case BytesV:
		y := b.(BytesV)
		return smt.BoolC(x.Nil && y.Nil)
	}
	panic(fmt.Sprintf("valueEq on %T", a))
}

// describe renders a value for traces/evidence.
func (in *Interp) Describe(st *State, v Value) string {
	switch x := v.(type) {
	case nil:
		return "<nil>"
	case *smt.Term:
		s := x.String()
		if len(s) > 200 {
			s = s[:200] + "…"
		}
		return s
	case Ptr:
		if x.Obj == 0 {
			return "nil"
		}
		return fmt.Sprintf("&obj%d%s", x.Obj, x.Path)
	case *StructV:
		var ps []string
		for _, f := range x.F {
			ps = append(ps, in.Describe(st, f))
		}
		return "{" + strings.Join(ps, ", ") + "}"
	case SliceV:
		if x.Arr == 0 {
			return "[]"
		}
		arr := st.Heap[x.Arr].(*ArrayV)
		var ps []string
		for i := 0; i < x.Len; i++ {
			ps = append(ps, in.Describe(st, arr.E[x.Off+i]))
		}
		return "[" + strings.Join(ps, ", ") + "]"
	case MapV:
		if x.Obj == 0 {
			return "map(nil)"
		}
		md := st.Heap[x.Obj].(*MapData)
		var ps []string
		for _, e := range md.Entries {
			ps = append(ps, in.Describe(st, e.K)+":"+in.Describe(st, e.V))
		}
		sort.Strings(ps)
		return "map[" + strings.Join(ps, ", ") + "]"
	case IfaceV:
		if x.T == nil {
			return "iface(nil)"
		}
		return "iface(" + x.T.String() + ")"
	case TupleV:
		var ps []string
		for _, f := range x {
			ps = append(ps, in.Describe(st, f))
		}
		return "(" + strings.Join(ps, ", ") + ")"
	}
	return fmt.Sprintf("%T", v)
}
