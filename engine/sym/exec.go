package sym

import (
	"fmt"
	"go/token"
	"go/types"
	"sync"

	"bmsym/smt"

	"golang.org/x/tools/go/ssa"
)

func one(v Value) []Alt { return []Alt{{Ret: v}} }

// exec executes one instruction. It returns nil when the instruction was
// fully handled in place (IP already advanced), otherwise alternatives.
func (in *Interp) exec(st *State, fr *Frame, instr ssa.Instruction) []Alt {
	bind := func(v Value) []Alt {
		fr.Env[instr.(ssa.Value)] = v
		fr.IP++
		return nil
	}
	switch x := instr.(type) {
	case *ssa.DebugRef:
		fr.IP++
		return nil
	case *ssa.Alloc:
		id := in.alloc(st, in.zero(x.Type().(*types.Pointer).Elem()))
		return bind(Ptr{Obj: id})
	case *ssa.Phi:
		panic("phi outside block entry")
	case *ssa.UnOp:
		return in.unop(st, fr, x)
	case *ssa.BinOp:
		return bind(in.binop(st, x.Op, in.get(fr, x.X), in.get(fr, x.Y), x.X.Type()))
	case *ssa.Store:
		p := in.get(fr, x.Addr).(Ptr)
		if p.Obj == 0 && p.Sym == nil {
			in.safety(st, smt.False, "nil-dereference")
			return nil
		}
		in.store(st, p, in.get(fr, x.Val))
		fr.IP++
		return nil
	case *ssa.FieldAddr:
		p := in.get(fr, x.X).(Ptr)
		if p.Obj == 0 {
			in.safety(st, smt.False, "nil-dereference")
			return nil
		}
		return bind(Ptr{Obj: p.Obj, Path: pathAppend(p.Path, x.Field)})
	case *ssa.Field:
		s := in.get(fr, x.X).(*StructV)
		return bind(s.F[x.Field])
	case *ssa.IndexAddr:
		return in.indexAddr(st, fr, x)
	case *ssa.Index:
		return in.index(st, fr, x)
	case *ssa.Lookup:
		return in.lookup(st, fr, x)
	case *ssa.MapUpdate:
		return in.mapUpdate(st, fr, x)
	case *ssa.MakeMap:
		id := in.alloc(st, &MapData{})
		return bind(MapV{Obj: id})
	case *ssa.MakeSlice:
		n := termOf(in.get(fr, x.Len))
		c := termOf(in.get(fr, x.Cap))
		if !n.IsConst() || !c.IsConst() {
			panic("MakeSlice with symbolic length")
		}
		et := x.Type().Underlying().(*types.Slice).Elem()
		if isByteSlice(x.Type()) {
			if n.I != 0 {
				panic("make([]byte, n>0)")
			}
			return bind(BytesV{S: smt.StrC("")})
		}
		arr := &ArrayV{E: make([]Value, int(c.I))}
		for i := range arr.E {
			arr.E[i] = in.zero(et)
		}
		id := in.alloc(st, arr)
		return bind(SliceV{Arr: id, Off: 0, Len: int(n.I), Cap: int(c.I)})
	case *ssa.MakeInterface:
		return bind(IfaceV{T: x.X.Type(), V: in.get(fr, x.X)})
	case *ssa.MakeClosure:
		fv := &FuncV{Fn: x.Fn.(*ssa.Function)}
		for _, b := range x.Bindings {
			fv.Free = append(fv.Free, in.get(fr, b))
		}
		return bind(fv)
	case *ssa.ChangeType:
		return bind(in.get(fr, x.X))
	case *ssa.ChangeInterface:
		return bind(in.get(fr, x.X))
	case *ssa.Convert:
		return bind(in.convert(st, in.get(fr, x.X), x.X.Type(), x.Type()))
	case *ssa.Slice:
		return in.slice(st, fr, x)
	case *ssa.Extract:
		return bind(in.get(fr, x.Tuple).(TupleV)[x.Index])
	case *ssa.TypeAssert:
		return in.typeAssert(st, fr, x)
	case *ssa.Range:
		return in.rangeInit(st, fr, x)
	case *ssa.Next:
		return in.next(st, fr, x)
	case *ssa.Call:
		return in.call(st, fr, x, x.Common())
	case *ssa.RunDefers:
		fr.IP++
		return nil
	case *ssa.Jump:
		in.jump(st, fr, fr.Block.Succs[0])
		return nil
	case *ssa.If:
		c := termOf(in.get(fr, x.Cond))
		if c.IsTrue() {
			in.jump(st, fr, fr.Block.Succs[0])
			return nil
		}
		if c.IsFalse() {
			in.jump(st, fr, fr.Block.Succs[1])
			return nil
		}
		// (no symbolic decision below this point is unbounded: model-forked loops
		// are limited by the models themselves)
		// if-conversion: a triangle or diamond whose arms are empty blocks that
		// rejoin at once is evaluated with ite instead of forking
		if in.ifConvert(st, fr, c) {
			return nil
		}
		// symbolic branch at a loop header: unwinding accounting
		if isLoopHeader(fr.Block) {
			fr.SymVis[fr.Block.Index]++
		}
		if fr.SymVis[fr.Block.Index] > in.Cfg.UnwindSym {
			st.Assumed = append(st.Assumed, "unwind-bound@"+in.where(st))
			return []Alt{{Stop: Cut, Why: "unwinding bound reached at " + in.where(st)}}
		}
		return []Alt{
			{Cond: c, Jump: fr.Block.Succs[0]},
			{Cond: smt.Not(c), Jump: fr.Block.Succs[1]},
		}
	case *ssa.Return:
		var ret Value
		switch len(x.Results) {
		case 0:
		case 1:
			ret = in.get(fr, x.Results[0])
		default:
			tv := make(TupleV, len(x.Results))
			for i, r := range x.Results {
				tv[i] = in.get(fr, r)
			}
			ret = tv
		}
		in.doReturn(st, ret)
		return nil
	case *ssa.Panic:
		ob := &Obligation{ID: "explicit-panic", Kind: "safety", PC: append([]*smt.Term(nil), st.PC...), Cond: smt.False, Where: in.where(st), PathID: st.ID}
		in.AddObligation(ob)
		st.Status = Panicked
		st.Reason = "explicit panic at " + in.where(st)
		return nil
	}
	panic(fmt.Sprintf("unsupported instruction %T: %s", instr, instr))
}

// ifConvert handles `if c goto T else F` where T and/or F consist of a single
// jump to a common join block J (or one of them is J itself). The phis of J
// become ite(c, vT, vF). Only scalar phi values are merged.
func (in *Interp) ifConvert(st *State, fr *Frame, c *smt.Term) bool {
	b := fr.Block
	tb, fb := b.Succs[0], b.Succs[1]
	emptyJump := func(x *ssa.BasicBlock) *ssa.BasicBlock {
		if len(x.Instrs) == 1 && len(x.Preds) == 1 {
			if _, ok := x.Instrs[0].(*ssa.Jump); ok {
				return x.Succs[0]
			}
		}
		return nil
	}
	var join, fromT, fromF *ssa.BasicBlock
	jt, jf := emptyJump(tb), emptyJump(fb)
	switch {
	case jt != nil && jt == fb:
		join, fromT, fromF = fb, tb, b
	case jf != nil && jf == tb:
		join, fromT, fromF = tb, b, fb
	case jt != nil && jf != nil && jt == jf:
		join, fromT, fromF = jt, tb, fb
	default:
		return false
	}
	if join == in.havocBlock || tb == fb {
		return false
	}
	iT, iF := -1, -1
	for i, p := range join.Preds {
		if p == fromT && iT < 0 {
			iT = i
		} else if p == fromF {
			iF = i
		}
	}
	if iT < 0 || iF < 0 {
		return false
	}
	var phis []*ssa.Phi
	var vals []Value
	for _, ins := range join.Instrs {
		phi, ok := ins.(*ssa.Phi)
		if !ok {
			break
		}
		vt, vf := in.get(fr, phi.Edges[iT]), in.get(fr, phi.Edges[iF])
		tt, ok1 := vt.(*smt.Term)
		tf, ok2 := vf.(*smt.Term)
		if !ok1 || !ok2 {
			return false
		}
		phis = append(phis, phi)
		vals = append(vals, smt.Ite(c, tt, tf))
	}
	for i, p := range phis {
		fr.Env[p] = vals[i]
	}
	fr.Prev, fr.Block = fromT, join
	fr.IP = len(phis)
	return true
}

// isLoopHeader: the block dominates one of its predecessors (target of a back edge).
func isLoopHeader(b *ssa.BasicBlock) bool {
	for _, p := range b.Preds {
		if b.Dominates(p) {
			return true
		}
	}
	return false
}

func (in *Interp) doReturn(st *State, ret Value) {
	fr := st.top()
	if fr.OnReturn != nil {
		ret = fr.OnReturn(st, ret)
		if st.Status != Running {
			return
		}
	}
	st.Frames = st.Frames[:len(st.Frames)-1]
	if len(st.Frames) == 0 {
		st.Ret = ret
		st.Status = Finished
		return
	}
	caller := st.top()
	if fr.Call != nil {
		caller.Env[fr.Call] = ret
	}
	caller.IP++
}

func (in *Interp) unop(st *State, fr *Frame, x *ssa.UnOp) []Alt {
	v := in.get(fr, x.X)
	bind := func(r Value) []Alt {
		fr.Env[x] = r
		fr.IP++
		return nil
	}
	switch x.Op {
	case token.MUL:
		p := v.(Ptr)
		if p.Obj == -1 {
			return bind(in.loadForeign(p.Path, x.Type()))
		}
		if p.Obj == 0 && p.Sym == nil {
			in.safety(st, smt.False, "nil-dereference")
			return nil
		}
		return bind(in.load(st, p))
	case token.NOT:
		return bind(smt.Not(termOf(v)))
	case token.SUB:
		return bind(smt.Sub(smt.IntC(0), termOf(v)))
	}
	panic("unsupported unop " + x.Op.String())
}

func (in *Interp) loadForeign(name string, t types.Type) Value {
	switch name {
	case "io.EOF":
		return IfaceV{T: errType("io.EOF"), V: &OpaqueV{Kind: "err", ID: 1}}
	}
	return &OpaqueV{Kind: "global:" + name}
}

// errType fabricates distinct named types for opaque error values.
var errTypes = map[string]types.Type{}
var errTypesMu sync.Mutex

func errType(name string) types.Type {
	errTypesMu.Lock()
	defer errTypesMu.Unlock()
	if t, ok := errTypes[name]; ok {
		return t
	}
	tn := types.NewTypeName(token.NoPos, nil, "opaqueError<"+name+">", nil)
	t := types.NewNamed(tn, types.NewStruct(nil, nil), nil)
	errTypes[name] = t
	return t
}

func (in *Interp) binop(st *State, op token.Token, a, b Value, t types.Type) Value {
	switch op {
	case token.EQL:
		return in.eq(a, b)
	case token.NEQ:
		return smt.Not(in.eq(a, b))
	}
	x, xok := a.(*smt.Term)
	y, yok := b.(*smt.Term)
	if !xok || !yok {
		panic(fmt.Sprintf("binop %s on %T,%T", op, a, b))
	}
	switch x.Sort {
	case smt.String:
		switch op {
		case token.ADD:
			return smt.Concat(x, y)
		}
		if x.IsConst() && y.IsConst() {
			switch op {
			case token.LSS:
				return smt.BoolC(x.S < y.S)
			case token.LEQ:
				return smt.BoolC(x.S <= y.S)
			case token.GTR:
				return smt.BoolC(x.S > y.S)
			case token.GEQ:
				return smt.BoolC(x.S >= y.S)
			}
		}
	case smt.Int:
		if x.IsConst() && y.IsConst() {
			switch op {
			case token.AND:
				return smt.IntC(x.I & y.I)
			case token.OR:
				return smt.IntC(x.I | y.I)
			case token.XOR:
				return smt.IntC(x.I ^ y.I)
			case token.SHL:
				return smt.IntC(x.I << uint(y.I))
			case token.SHR:
				return smt.IntC(x.I >> uint(y.I))
			case token.QUO:
				if y.I != 0 {
					return smt.IntC(x.I / y.I)
				}
			case token.REM:
				if y.I != 0 {
					return smt.IntC(x.I % y.I)
				}
			}
		}
		switch op {
		case token.ADD:
			return smt.Add(x, y)
		case token.SUB:
			return smt.Sub(x, y)
		case token.MUL:
			return smt.Mul(x, y)
		case token.LSS:
			return smt.Lt(x, y)
		case token.LEQ:
			return smt.Le(x, y)
		case token.GTR:
			return smt.Gt(x, y)
		case token.GEQ:
			return smt.Ge(x, y)
		}
	case smt.Bool:
		switch op {
		case token.AND:
			return smt.And(x, y)
		case token.OR:
			return smt.Or(x, y)
		}
	}
	panic(fmt.Sprintf("unsupported binop %s on sort %s", op, x.Sort))
}

func (in *Interp) eq(a, b Value) *smt.Term {
	// comparisons against nil of reference kinds
	switch x := a.(type) {
	case SliceV:
		if y, ok := b.(SliceV); ok {
			return smt.BoolC(x.Arr == 0 && y.Arr == 0 || (x == y))
		}
	case *SymSliceV:
		// only s == nil; a symbolic slice may or may not be nil: treat len==0 && nil as unknown -> compare by length 0 is not nil-ness.
		panic("comparison of symbolic slice")
	case Ptr:
		if y, ok := b.(Ptr); ok {
			return smt.BoolC(x.Obj == y.Obj && x.Path == y.Path)
		}
	}
	return valueEq(a, b)
}

func (in *Interp) convert(st *State, v Value, from, to types.Type) Value {
	fu, tu := from.Underlying(), to.Underlying()
	if fb, ok := fu.(*types.Basic); ok && fb.Info()&types.IsString != 0 {
		if isByteSlice(to) {
			return BytesV{S: termOf(v)}
		}
	}
	if isByteSlice(from) {
		if tb, ok := tu.(*types.Basic); ok && tb.Info()&types.IsString != 0 {
			return v.(BytesV).S
		}
	}
	if fb, ok := fu.(*types.Basic); ok && fb.Info()&types.IsInteger != 0 {
		if tb, ok := tu.(*types.Basic); ok && tb.Info()&types.IsInteger != 0 {
			return v
		}
		if tb, ok := tu.(*types.Basic); ok && tb.Info()&types.IsString != 0 {
			// string(rune) for ASCII
			return smt.FromCode(termOf(v))
		}
	}
	if _, ok := fu.(*types.Basic); ok {
		if _, ok := tu.(*types.Basic); ok {
			return v
		}
	}
	panic(fmt.Sprintf("unsupported conversion %s -> %s", from, to))
}

func (in *Interp) indexAddr(st *State, fr *Frame, x *ssa.IndexAddr) []Alt {
	base := in.get(fr, x.X)
	idx := termOf(in.get(fr, x.Index))
	switch b := base.(type) {
	case SliceV:
		if idx.IsConst() {
			if idx.I < 0 || int(idx.I) >= b.Len {
				in.safety(st, smt.False, "index-out-of-range")
				return nil
			}
			fr.Env[x] = Ptr{Obj: b.Arr, Path: pathAppend("", b.Off+int(idx.I))}
			fr.IP++
			return nil
		}
		if !in.safety(st, smt.And(smt.Le(smt.IntC(0), idx), smt.Lt(idx, smt.IntC(int64(b.Len)))), "index-out-of-range") {
			return nil
		}
		var alts []Alt
		for i := 0; i < b.Len; i++ {
			alts = append(alts, Alt{Cond: smt.Eq(idx, smt.IntC(int64(i))), Ret: Ptr{Obj: b.Arr, Path: pathAppend("", b.Off+i)}})
		}
		return alts
	case *SymSliceV:
		if !in.safety(st, smt.And(smt.Le(smt.IntC(0), idx), smt.Lt(idx, b.Len)), "index-out-of-range") {
			return nil
		}
		fr.Env[x] = Ptr{Sym: &SymElem{Arr: b.Arr, Idx: idx}}
		fr.IP++
		return nil
	case Ptr: // pointer to array
		if b.Obj == 0 {
			in.safety(st, smt.False, "nil-dereference")
			return nil
		}
		if !idx.IsConst() {
			panic("symbolic index into array pointer")
		}
		fr.Env[x] = Ptr{Obj: b.Obj, Path: pathAppend(b.Path, int(idx.I))}
		fr.IP++
		return nil
	}
	panic(fmt.Sprintf("IndexAddr on %T", base))
}

func (in *Interp) index(st *State, fr *Frame, x *ssa.Index) []Alt {
	base := in.get(fr, x.X)
	idx := termOf(in.get(fr, x.Index))
	switch b := base.(type) {
	case *ArrayV:
		if !idx.IsConst() {
			panic("symbolic array index")
		}
		fr.Env[x] = b.E[idx.I]
		fr.IP++
		return nil
	case *smt.Term: // string index -> byte
		return in.strIndex(st, fr, x, b, idx)
	}
	panic(fmt.Sprintf("Index on %T", base))
}

func (in *Interp) strIndex(st *State, fr *Frame, x ssa.Value, s, idx *smt.Term) []Alt {
	if !in.safety(st, smt.And(smt.Le(smt.IntC(0), idx), smt.Lt(idx, smt.StrLen(s))), "string-index-out-of-range") {
		return nil
	}
	fr.Env[x] = smt.ToCode(smt.At(s, idx))
	fr.IP++
	return nil
}

// ---- maps

func (in *Interp) mapData(st *State, m MapV) *MapData {
	if m.Obj == 0 {
		return &MapData{}
	}
	return st.Heap[m.Obj].(*MapData)
}

// lookupAlts enumerates the outcomes of m[k]: one per possibly-equal entry
// plus the not-found case.
func (in *Interp) lookupAlts(st *State, m MapV, k Value, zero Value) (alts []Alt, found []bool) {
	md := in.mapData(st, m)
	// A lookup with the same key term on the same (unchanged) map repeats the
	// outcome chosen earlier on this path.
	var memoKey string
	if kt, ok := k.(*smt.Term); ok && !kt.IsConst() {
		memoKey = fmt.Sprintf("lk:%p:%d", md, kt.ID())
		if prev, ok := st.Ghost[memoKey].(int); ok {
			if prev < 0 {
				return []Alt{{Ret: zero}}, []bool{false}
			}
			if prev < len(md.Entries) {
				return []Alt{{Ret: md.Entries[prev].V}}, []bool{true}
			}
		}
	}
	record := func(i int) func(st *State) {
		if memoKey == "" {
			return nil
		}
		return func(st *State) { st.Ghost[memoKey] = i }
	}
	var neqs []*smt.Term
	for i, e := range md.Entries {
		c := valueEq(e.K, k)
		if c.IsFalse() {
			continue
		}
		alts = append(alts, Alt{Cond: c, Ret: e.V, Eff: record(i)})
		found = append(found, true)
		if c.IsTrue() {
			return alts, found
		}
		neqs = append(neqs, smt.Not(c))
	}
	alts = append(alts, Alt{Cond: smt.And(neqs...), Ret: zero, Eff: record(-1)})
	found = append(found, false)
	return alts, found
}

// onlyOkUsed reports whether every use of a comma-ok lookup extracts the ok
// component.
func onlyOkUsed(x *ssa.Lookup) bool {
	refs := x.Referrers()
	if refs == nil {
		return false
	}
	for _, r := range *refs {
		e, ok := r.(*ssa.Extract)
		if !ok {
			if _, dbg := r.(*ssa.DebugRef); dbg {
				continue
			}
			return false
		}
		if e.Index != 1 {
			if er := e.Referrers(); er != nil && len(*er) > 0 {
				return false
			}
		}
	}
	return true
}

func isScalar(v Value) bool {
	_, ok := v.(*smt.Term)
	return ok
}

func (in *Interp) lookup(st *State, fr *Frame, x *ssa.Lookup) []Alt {
	base := in.get(fr, x.X)
	if s, ok := base.(*smt.Term); ok { // string index
		return in.strIndex(st, fr, x, s, termOf(in.get(fr, x.Index)))
	}
	m := base.(MapV)
	k := in.get(fr, x.Index)
	mt := x.X.Type().Underlying().(*types.Map)
	zero := in.zero(mt.Elem())
	alts, found := in.lookupAlts(st, m, k, zero)
	for i := range alts {
		if alts[i].Cond == nil {
			alts[i].Cond = smt.True
		}
	}
	// merge into an ite chain when every value is a scalar term or the
	// element type is an empty struct (set membership)
	allScalar := true
	if x.CommaOk && onlyOkUsed(x) {
		// the value component is never read: no need to distinguish entries
		okT := smt.False
		for i := range alts {
			if found[i] {
				okT = smt.Or(okT, alts[i].Cond)
			}
		}
		fr.Env[x] = TupleV{zero, okT}
		fr.IP++
		return nil
	}
	for _, a := range alts {
		if !isScalar(a.Ret) {
			if sv, ok := a.Ret.(*StructV); ok && len(sv.F) == 0 {
				continue
			}
			allScalar = false
		}
	}
	if allScalar {
		var val Value = zero
		okT := smt.False
		if isScalar(zero) {
			v := zero.(*smt.Term)
			for i := len(alts) - 1; i >= 0; i-- {
				if !found[i] {
					continue
				}
				v = smt.Ite(alts[i].Cond, alts[i].Ret.(*smt.Term), v)
			}
			val = v
		}
		for i := range alts {
			if found[i] {
				okT = smt.Or(okT, alts[i].Cond)
			}
		}
		if x.CommaOk {
			fr.Env[x] = TupleV{val, okT}
		} else {
			fr.Env[x] = val
		}
		fr.IP++
		return nil
	}
	for i := range alts {
		if x.CommaOk {
			alts[i].Ret = TupleV{alts[i].Ret, smt.BoolC(found[i])}
		}
	}
	return alts
}

func (in *Interp) mapUpdate(st *State, fr *Frame, x *ssa.MapUpdate) []Alt {
	m := in.get(fr, x.Map).(MapV)
	if m.Obj == 0 {
		in.safety(st, smt.False, "assignment-to-nil-map")
		return nil
	}
	k := in.get(fr, x.Key)
	v := in.get(fr, x.Value)
	return in.mapUpdateAlts(st, m, k, v)
}

func (in *Interp) mapUpdateAlts(st *State, m MapV, k, v Value) []Alt {
	md := in.mapData(st, m)
	var alts []Alt
	var neqs []*smt.Term
	mk := func(i int) func(st *State) {
		return func(st *State) {
			if m.Obj < st.SharedBelow {
				st.Effects = append(st.Effects, fmt.Sprintf("map update on pre-existing map obj%d (%s) at %s", m.Obj, in.objName(m.Obj), in.where(st)))
			}
			old := st.Heap[m.Obj].(*MapData)
			nd := &MapData{Entries: append([]MapEntry(nil), old.Entries...)}
			if i < 0 {
				nd.Entries = append(nd.Entries, MapEntry{K: k, V: v})
			} else {
				nd.Entries[i] = MapEntry{K: old.Entries[i].K, V: v}
			}
			st.Heap[m.Obj] = nd
		}
	}
	for i, e := range md.Entries {
		c := valueEq(e.K, k)
		if c.IsFalse() {
			continue
		}
		alts = append(alts, Alt{Cond: c, Eff: mk(i)})
		if c.IsTrue() {
			return alts
		}
		neqs = append(neqs, smt.Not(c))
	}
	alts = append(alts, Alt{Cond: smt.And(neqs...), Eff: mk(-1)})
	return alts
}

func (in *Interp) mapDeleteAlts(st *State, m MapV, k Value) []Alt {
	md := in.mapData(st, m)
	var alts []Alt
	var neqs []*smt.Term
	for i, e := range md.Entries {
		c := valueEq(e.K, k)
		if c.IsFalse() {
			continue
		}
		i := i
		alts = append(alts, Alt{Cond: c, Eff: func(st *State) {
			if m.Obj < st.SharedBelow {
				st.Effects = append(st.Effects, fmt.Sprintf("map delete on pre-existing map obj%d at %s", m.Obj, in.where(st)))
			}
			old := st.Heap[m.Obj].(*MapData)
			nd := &MapData{}
			nd.Entries = append(nd.Entries, old.Entries[:i]...)
			nd.Entries = append(nd.Entries, old.Entries[i+1:]...)
			st.Heap[m.Obj] = nd
		}})
		if c.IsTrue() {
			return alts
		}
		neqs = append(neqs, smt.Not(c))
	}
	alts = append(alts, Alt{Cond: smt.And(neqs...)})
	return alts
}

func (in *Interp) rangeInit(st *State, fr *Frame, x *ssa.Range) []Alt {
	base := in.get(fr, x.X)
	m, ok := base.(MapV)
	if !ok {
		panic(fmt.Sprintf("range over %T", base))
	}
	md := in.mapData(st, m)
	entries := md.Entries
	if in.Cfg.MapOrders && len(entries) >= 2 && len(entries) <= 3 {
		var alts []Alt
		for _, perm := range permutations(len(entries)) {
			pe := make([]MapEntry, len(entries))
			for i, j := range perm {
				pe[i] = entries[j]
			}
			perm := perm
			alts = append(alts, Alt{Ret: retFromEnv{}, Eff: func(st *State) {
				id := in.alloc(st, &IterState{Entries: pe})
				st.top().Env[x] = IterV{Obj: id}
				st.Trace = append(st.Trace, fmt.Sprintf("map-order %v at %s", perm, in.where(st)))
			}})
		}
		return alts
	}
	id := in.alloc(st, &IterState{Entries: entries})
	fr.Env[x] = IterV{Obj: id}
	fr.IP++
	return nil
}

// retFromEnv marks an Alt whose effect already bound the instruction value.
type retFromEnv struct{}

func permutations(n int) [][]int {
	if n == 1 {
		return [][]int{{0}}
	}
	var out [][]int
	for _, p := range permutations(n - 1) {
		for i := 0; i <= len(p); i++ {
			q := append([]int{}, p[:i]...)
			q = append(q, n-1)
			q = append(q, p[i:]...)
			out = append(out, q)
		}
	}
	return out
}

func (in *Interp) next(st *State, fr *Frame, x *ssa.Next) []Alt {
	if x.IsString {
		panic("range over string")
	}
	it := in.get(fr, x.Iter).(IterV)
	is := st.Heap[it.Obj].(*IterState)
	tt := x.Type().(*types.Tuple)
	if is.Idx >= len(is.Entries) {
		fr.Env[x] = TupleV{smt.False, in.zero(tt.At(1).Type()), in.zero(tt.At(2).Type())}
		fr.IP++
		return nil
	}
	e := is.Entries[is.Idx]
	st.Heap[it.Obj] = &IterState{Entries: is.Entries, Idx: is.Idx + 1}
	fr.Env[x] = TupleV{smt.True, e.K, e.V}
	fr.IP++
	return nil
}

func (in *Interp) typeAssert(st *State, fr *Frame, x *ssa.TypeAssert) []Alt {
	v := in.get(fr, x.X).(IfaceV)
	ok := false
	var res Value
	if it, isIface := x.AssertedType.Underlying().(*types.Interface); isIface {
		ok = v.T != nil && types.Implements(v.T, it)
		res = v
		if !ok {
			res = IfaceV{}
		}
	} else {
		ok = v.T != nil && types.Identical(v.T, x.AssertedType)
		if ok {
			res = v.V
		} else {
			res = in.zero(x.AssertedType)
		}
	}
	if x.CommaOk {
		fr.Env[x] = TupleV{res, smt.BoolC(ok)}
		fr.IP++
		return nil
	}
	if !ok {
		in.safety(st, smt.False, "failed-type-assertion")
		return nil
	}
	fr.Env[x] = res
	fr.IP++
	return nil
}

func (in *Interp) slice(st *State, fr *Frame, x *ssa.Slice) []Alt {
	base := in.get(fr, x.X)
	var lo, hi *smt.Term
	if x.Low != nil {
		lo = termOf(in.get(fr, x.Low))
	}
	if x.High != nil {
		hi = termOf(in.get(fr, x.High))
	}
	if x.Max != nil {
		panic("3-index slice")
	}
	bind := func(v Value) []Alt {
		fr.Env[x] = v
		fr.IP++
		return nil
	}
	switch b := base.(type) {
	case *smt.Term: // string
		n := smt.StrLen(b)
		if lo == nil {
			lo = smt.IntC(0)
		}
		if hi == nil {
			hi = n
		}
		if !in.safety(st, smt.And(smt.Le(smt.IntC(0), lo), smt.Le(lo, hi), smt.Le(hi, n)), "slice-bounds-out-of-range") {
			return nil
		}
		return bind(smt.Substr(b, lo, smt.Sub(hi, lo)))
	case BytesV:
		n := smt.StrLen(b.S)
		if lo == nil {
			lo = smt.IntC(0)
		}
		if hi == nil {
			hi = n
		}
		if !in.safety(st, smt.And(smt.Le(smt.IntC(0), lo), smt.Le(lo, hi), smt.Le(hi, n)), "slice-bounds-out-of-range") {
			return nil
		}
		return bind(BytesV{S: smt.Substr(b.S, lo, smt.Sub(hi, lo))})
	case Ptr: // *[n]T
		arr := in.load(st, b).(*ArrayV)
		if b.Path != "" {
			panic("slice of nested array")
		}
		l, h := 0, len(arr.E)
		if lo != nil {
			l = int(lo.I)
		}
		if hi != nil {
			h = int(hi.I)
		}
		return bind(SliceV{Arr: b.Obj, Off: l, Len: h - l, Cap: len(arr.E) - l})
	case SliceV:
		l, h := 0, b.Len
		if lo != nil {
			if !lo.IsConst() {
				panic("symbolic slice bound on concrete slice")
			}
			l = int(lo.I)
		}
		if hi != nil {
			if !hi.IsConst() {
				panic("symbolic slice bound on concrete slice")
			}
			h = int(hi.I)
		}
		if l < 0 || h < l || h > b.Cap {
			in.safety(st, smt.False, "slice-bounds-out-of-range")
			return nil
		}
		if b.Arr == 0 {
			return bind(SliceV{})
		}
		return bind(SliceV{Arr: b.Arr, Off: b.Off + l, Len: h - l, Cap: b.Cap - l})
	case *SymSliceV:
		if lo != nil && !(lo.IsConst() && lo.I == 0) {
			panic("symbolic slice with non-zero low bound")
		}
		if hi == nil {
			return bind(b)
		}
		// s[:hi] requires 0 <= hi <= cap; capacity is not modelled, the
		// code under analysis only shrinks, so require hi <= len.
		if !in.safety(st, smt.And(smt.Le(smt.IntC(0), hi), smt.Le(hi, b.Len)), "slice-bounds-out-of-range") {
			return nil
		}
		return bind(&SymSliceV{Arr: b.Arr, Len: hi})
	}
	panic(fmt.Sprintf("Slice on %T", base))
}
