package sym

import (
	"fmt"
	"go/types"
	"strconv"

	"bmsym/smt"

	"golang.org/x/tools/go/ssa"
)

func strconvQuoteToASCII(s string) string { return strconv.QuoteToASCII(s) }

// Token stream contract (assumption A1), expressed as languages.
var (
	reTagName = smt.ReConcat(smt.ReRange('a', 'z'),
		smt.ReStar(smt.ReUnion(smt.ReRange(1, 8), smt.ReRange(14, 31), smt.ReRange(33, '/'-1), smt.ReRange('/'+1, '>'-1), smt.ReRange('>'+1, 'A'-1), smt.ReRange('Z'+1, 0x7f))))
	// tag names in the non-ASCII pass: the tokenizer folds A-Z only and keeps other bytes
	reTagNameWide = smt.ReConcat(smt.ReRange('a', 'z'),
		smt.ReStar(smt.ReUnion(smt.ReRange(1, 8), smt.ReRange(14, 31), smt.ReRange(33, '/'-1), smt.ReRange('/'+1, '>'-1), smt.ReRange('>'+1, 'A'-1), smt.ReRange('Z'+1, 0x7f), reWideExtra)))
	reAttrKey = smt.RePlus(smt.ReUnion(smt.ReRange(1, 8), smt.ReRange(14, 31), smt.ReRange(33, '/'-1), smt.ReRange('/'+1, '='-1), smt.ReLit("?"), smt.ReLit("@"), smt.ReRange('Z'+1, 0x7f)))
)

type tokzObj struct {
	Reader Value
	Cur    *TokenInfo
	N      int
}

func registerTokenizer(in *Interp) {
	M := in.Models
	const hp = "golang.org/x/net/html."
	M[hp+"NewTokenizer"] = func(in *Interp, st *State, cc *ssa.CallCommon, args []Value) []Alt {
		return []Alt{effRet(func(st *State) Value {
			return Ptr{Obj: in.alloc(st, &tokzObj{Reader: args[0]})}
		})}
	}
	M["(*"+hp+"Tokenizer).Next"] = func(in *Interp, st *State, cc *ssa.CallCommon, args []Value) []Alt {
		p := args[0].(Ptr)
		mk := func(kind string, nattr int, errIs string, name string) Alt {
			return Alt{Ret: smt.IntC(int64(tokenKindCode[kind])), Eff: func(st *State) {
				tz := st.Heap[p.Obj].(*tokzObj)
				idx := len(st.Tokens)
				ti := &TokenInfo{Kind: kind, ErrIs: errIs}
				pre := fmt.Sprintf("tok%d", idx)
				if name != "" {
					ti.Data = smt.StrC(name)
				} else if kind != "Error" {
					ti.Data = st.fresh(pre+".data", smt.String)
					switch kind {
					case "StartTag", "EndTag", "SelfClosing":
						if WideNames {
							st.assume(smt.InRe(ti.Data, reTagNameWide))
						} else {
							st.assume(smt.InRe(ti.Data, reTagName))
						}
					case "Text":
						st.assume(smt.Not(smt.Eq(ti.Data, smt.StrC(""))))
					}
					if WideNames && kind != "StartTag" && kind != "EndTag" && kind != "SelfClosing" {
						st.assume(smt.ASCII(ti.Data))
					}
				}
				for i := 0; i < nattr; i++ {
					k := st.fresh(fmt.Sprintf("%s.k%d", pre, i), smt.String)
					v := st.fresh(fmt.Sprintf("%s.v%d", pre, i), smt.String)
					st.assume(smt.InRe(k, reAttrKey))
					if WideNames {
						st.assume(smt.ASCII(v))
					}
					ti.Keys = append(ti.Keys, k)
					ti.Vals = append(ti.Vals, v)
				}
				st.Tokens = append(st.Tokens, ti)
				st.Heap[p.Obj] = &tokzObj{Reader: tz.Reader, Cur: ti, N: tz.N + 1}
			}}
		}
		var alts []Alt
		alts = append(alts, mk("Error", 0, "EOF", ""), mk("Error", 0, "other", ""), mk("Text", 0, "", ""), mk("Comment", 0, "", ""), mk("Doctype", 0, "", ""))
		names := in.Cfg.TokenNames
		if len(names) == 0 {
			names = []string{""}
		}
		for _, nm := range names {
			alts = append(alts, mk("EndTag", 0, "", nm))
			for n := 0; n <= in.Cfg.MaxAttrs; n++ {
				alts = append(alts, mk("StartTag", n, "", nm), mk("SelfClosing", n, "", nm))
			}
		}
		return alts
	}
	M["(*"+hp+"Tokenizer).Err"] = func(in *Interp, st *State, cc *ssa.CallCommon, args []Value) []Alt {
		tz := st.Heap[args[0].(Ptr).Obj].(*tokzObj)
		if tz.Cur == nil || tz.Cur.Kind != "Error" {
			return one(IfaceV{})
		}
		if tz.Cur.ErrIs == "EOF" {
			return one(in.loadForeign("io.EOF", nil))
		}
		return one(IfaceV{T: errType("reader"), V: &OpaqueV{Kind: "err", ID: 2}})
	}
	M["(*"+hp+"Tokenizer).Token"] = func(in *Interp, st *State, cc *ssa.CallCommon, args []Value) []Alt {
		tokT := cc.Signature().Results().At(0).Type()
		return []Alt{effRet(func(st *State) Value {
			tz := st.Heap[args[0].(Ptr).Obj].(*tokzObj)
			ti := tz.Cur
			z := in.zero(tokT).(*StructV)
			t := &StructV{F: append([]Value(nil), z.F...)}
			t.F[0] = smt.IntC(int64(tokenKindCode[ti.Kind]))
			if ti.Data != nil {
				t.F[2] = ti.Data
			}
			if len(ti.Keys) > 0 {
				var attrs []Value
				for i := range ti.Keys {
					attrs = append(attrs, &StructV{F: []Value{smt.StrC(""), ti.Keys[i], ti.Vals[i]}})
				}
				t.F[3] = newSlice(in, st, attrs)
			}
			return t
		})}
	}
	M["("+hp+"Token).String"] = func(in *Interp, st *State, cc *ssa.CallCommon, args []Value) []Alt {
		t := args[0].(*StructV)
		return one(TokStr(st, t))
	}
	_ = types.Typ
}

// TokStr is the uninterpreted serialisation of a token value; the function
// symbol encodes token type and attribute count, the arguments are data and
// the attribute key/value pairs, so provenance can be read back.
func TokStr(st *State, t *StructV) *smt.Term {
	tt := termOf(t.F[0])
	if !tt.IsConst() {
		panic("Token.String on token of symbolic type")
	}
	kind := tokenKindName[tt.I]
	argv := []*smt.Term{termOf(t.F[2])}
	for _, a := range sliceElems(st, t.F[3]) {
		av := a.(*StructV)
		argv = append(argv, termOf(av.F[1]), termOf(av.F[2]))
	}
	return smt.UF(fmt.Sprintf("tokstr.%s.%d", kind, (len(argv)-1)/2), smt.String, argv...)
}
