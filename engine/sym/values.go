// Package sym is a forking symbolic interpreter over go/ssa that produces SMT
// terms (package smt) for scalars and strings and keeps heap structure
// concrete.
package sym

import (
	"fmt"
	"go/types"
	"strings"

	"bmsym/smt"

	"golang.org/x/tools/go/ssa"
)

// Value is one of: *smt.Term (bool/int/string), Ptr, *StructV, *ArrayV,
// SliceV, *SymSliceV, BytesV, MapV, IfaceV, *FuncV, TupleV, IterV, *OpaqueV.
type Value interface{}

// Ptr points into a heap object. Obj == 0 is the nil pointer.
type Ptr struct {
	Obj  int
	Path string // encoded index path "/f/i/..." so that Ptr is comparable
	// Sym is set for element pointers into symbolic slices (load only).
	Sym *SymElem
}

type SymElem struct {
	Arr *smt.Term
	Idx *smt.Term
}

type StructV struct{ F []Value }
type ArrayV struct{ E []Value }

// SliceV is a slice with concrete geometry over a heap-allocated backing
// array object (cell value *ArrayV). Arr == 0 is the nil slice.
type SliceV struct {
	Arr, Off, Len, Cap int
}

// SymSliceV is a []string of symbolic length (value semantics; no aliasing).
type SymSliceV struct {
	Arr *smt.Term // (Array Int String)
	Len *smt.Term
}

// BytesV is an immutable []byte view of a string term.
type BytesV struct {
	S   *smt.Term
	Nil bool
}

type MapV struct{ Obj int }

type MapEntry struct {
	K Value
	V Value
}
type MapData struct{ Entries []MapEntry }

type IfaceV struct {
	T types.Type // nil = nil interface
	V Value
}

type FuncV struct {
	Fn      *ssa.Function
	Free    []Value
	Special string // harness-created uninterpreted closures
	Tag     string
}

type TupleV []Value

type IterV struct{ Obj int }
type IterState struct {
	Entries []MapEntry
	Idx     int
}

// OpaqueV stands for library objects with model-defined behaviour.
type OpaqueV struct {
	Kind string
	ID   int
	Data map[string]Value
}

// RegexObj is the heap cell of a *regexp.Regexp.
type RegexObj struct {
	Known  *smt.Known
	Opaque string // tag of an opaque (harness nondet) regexp
	ID     int
}

// BufObj is the heap cell of a bytes.Buffer.
type BufObj struct{ S *smt.Term }

// ReaderObj is a strings.Reader / bytes.Reader.
type ReaderObj struct{ S *smt.Term }

func isNilPtr(v Value) bool {
	p, ok := v.(Ptr)
	return ok && p.Obj == 0 && p.Sym == nil
}

func pathAppend(p string, i int) string { return fmt.Sprintf("%s/%d", p, i) }

func pathElems(p string) []int {
	if p == "" {
		return nil
	}
	var out []int
	for _, s := range strings.Split(p[1:], "/") {
		n := 0
		fmt.Sscanf(s, "%d", &n)
		out = append(out, n)
	}
	return out
}

// zero returns the zero Value of a type.
func (in *Interp) zero(t types.Type) Value {
	if n, ok := t.(*types.Named); ok {
		if n.Obj().Pkg() != nil {
			switch n.Obj().Pkg().Path() + "." + n.Obj().Name() {
			case "bytes.Buffer":
				return &BufObj{S: smt.StrC("")}
			}
		}
	}
	switch u := t.Underlying().(type) {
	case *types.Basic:
		switch {
		case u.Info()&types.IsBoolean != 0:
			return smt.False
		case u.Info()&types.IsInteger != 0:
			return smt.IntC(0)
		case u.Info()&types.IsString != 0:
			return smt.StrC("")
		case u.Kind() == types.UnsafePointer:
			return Ptr{}
		case u.Kind() == types.UntypedNil:
			return Ptr{}
		}
		return &OpaqueV{Kind: "zero:" + u.String()}
	case *types.Pointer:
		return Ptr{}
	case *types.Struct:
		s := &StructV{F: make([]Value, u.NumFields())}
		for i := 0; i < u.NumFields(); i++ {
			s.F[i] = in.zero(u.Field(i).Type())
		}
		return s
	case *types.Array:
		a := &ArrayV{E: make([]Value, int(u.Len()))}
		for i := range a.E {
			a.E[i] = in.zero(u.Elem())
		}
		return a
	case *types.Slice:
		if b, ok := u.Elem().Underlying().(*types.Basic); ok && b.Kind() == types.Byte {
			return BytesV{S: smt.StrC(""), Nil: true}
		}
		return SliceV{}
	case *types.Map:
		return MapV{}
	case *types.Interface:
		return IfaceV{}
	case *types.Signature:
		return (*FuncV)(nil)
	case *types.Chan:
		return Ptr{}
	case *types.Tuple:
		tv := make(TupleV, u.Len())
		for i := range tv {
			tv[i] = in.zero(u.At(i).Type())
		}
		return tv
	}
	panic("zero: unsupported type " + t.String())
}

func isByteSlice(t types.Type) bool {
	s, ok := t.Underlying().(*types.Slice)
	if !ok {
		return false
	}
	b, ok := s.Elem().Underlying().(*types.Basic)
	return ok && b.Kind() == types.Byte
}

func termOf(v Value) *smt.Term {
	t, ok := v.(*smt.Term)
	if !ok {
		panic(fmt.Sprintf("expected term, got %T", v))
	}
	return t
}

// SplitValuesV is the summarised result of css.splitValues(X): the list of
// comma separated, trimmed, lower-cased parts of X, of any length. It may only
// flow into the summarised css.in.
type SplitValuesV struct{ X *smt.Term }
