package sym

import (
	"sync"

	"bmsym/smt"
)

// Decomposition records x = w0·p1·w1·…·pn·wn introduced by the strings.Fields
// model (parts pi, separators wi).
type Decomposition struct {
	Eq    *smt.Term
	X     *smt.Term
	Parts []*smt.Term
	Seps  []*smt.Term
}

var (
	decompMu sync.Mutex
	decomps  = map[*smt.Term]*Decomposition{}
)

func registerDecomp(d *Decomposition) {
	decompMu.Lock()
	decomps[d.Eq] = d
	decompMu.Unlock()
}

// ProjectDecomps rewrites, exactly, a conjunction in which the parts of a
// Fields decomposition are only constrained by regular memberships into one
// membership of the decomposed string in the product language; the word
// equation and the fresh variables disappear. Conjunctions in which a part is
// used in any other way are returned unchanged.
func ProjectDecomps(conj []*smt.Term) []*smt.Term {
	flat := smt.And(conj...)
	var cs []*smt.Term
	if flat.Op == "and" {
		cs = flat.Args
	} else {
		cs = []*smt.Term{flat}
	}
	decompMu.Lock()
	var found []*Decomposition
	for _, c := range cs {
		if d, ok := decomps[c]; ok {
			found = append(found, d)
		}
	}
	decompMu.Unlock()
	if len(found) == 0 {
		return conj
	}
	for _, d := range found {
		owner := map[*smt.Term]int{} // var -> index (parts: i, seps: -1-i)
		for i, p := range d.Parts {
			owner[p] = i
		}
		for i, w := range d.Seps {
			owner[w] = -1 - i
		}
		mentions := func(t *smt.Term) []*smt.Term {
			var out []*smt.Term
			smt.Walk(t, func(x *smt.Term) {
				if _, ok := owner[x]; ok {
					out = append(out, x)
				}
			})
			return out
		}
		partLang := make([]*smt.Term, len(d.Parts))
		for i := range partLang {
			partLang[i] = reNonWSPlus
		}
		var rest []*smt.Term
		ok := true
		for _, c := range cs {
			if c == d.Eq {
				continue
			}
			ms := mentions(c)
			if len(ms) == 0 {
				rest = append(rest, c)
				continue
			}
			neg := false
			a := c
			if a.Op == "not" {
				neg = true
				a = a.Args[0]
			}
			var v, lang *smt.Term
			switch {
			case a.Op == "str.in_re" && a.Args[0].Op == "var":
				v, lang = a.Args[0], a.Args[1]
			case a.Op == "=" && a.Args[0].Op == "var" && a.Args[1].IsConst() && a.Args[1].Sort == smt.String:
				v, lang = a.Args[0], smt.ReLit(a.Args[1].S)
			case a.Op == "=" && a.Args[1].Op == "var" && a.Args[0].IsConst() && a.Args[0].Sort == smt.String:
				v, lang = a.Args[1], smt.ReLit(a.Args[0].S)
			}
			if v == nil || len(ms) != 1 {
				ok = false
				break
			}
			idx, owned := owner[v]
			if !owned {
				ok = false
				break
			}
			if idx < 0 {
				// separator constraints are the white-space shapes added by the model itself
				continue
			}
			if neg {
				lang = smt.ReComp(lang)
			}
			partLang[idx] = smt.ReInter(partLang[idx], lang)
		}
		if !ok {
			continue
		}
		var rp []*smt.Term
		rp = append(rp, reWSStar)
		for i := range d.Parts {
			rp = append(rp, partLang[i])
			if i < len(d.Parts)-1 {
				rp = append(rp, reWSPlus)
			} else {
				rp = append(rp, reWSStar)
			}
		}
		rest = append(rest, smt.App("str.in_re", smt.Bool, d.X, smt.ReConcat(rp...)))
		cs = rest
	}
	return cs
}
