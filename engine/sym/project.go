package sym

import (
	"strings"
	"sync"

	"bmsym/smt"
)

// Decomposition records x = f(parts, separators) introduced by a relational
// string model (Fields, Split, TrimSpace, TrimRight). Build gives the regular
// language of x from the languages of the parts.
type Decomposition struct {
	Eq    *smt.Term
	X     *smt.Term
	Parts []*smt.Term
	Seps  []*smt.Term // model-introduced separator variables (constrained only by the model)
	Base  []*smt.Term // base language of each part (what the model itself asserts)
	Build func(partLangs []*smt.Term) *smt.Term
	// Own are the conjuncts the model itself added about parts and seps
	Own map[*smt.Term]bool
}

var (
	decompMu sync.Mutex
	decomps  = map[*smt.Term]*Decomposition{}
)

func registerDecomp(d *Decomposition) {
	decompMu.Lock()
	decomps[d.Eq] = d
	decompMu.Unlock()
}

// regexOfFormula translates a boolean formula whose only string variable is
// v, built from regular atoms, into the language { v | formula }.
func regexOfFormula(f, v *smt.Term) (*smt.Term, bool) {
	switch {
	case f.IsTrue():
		return smt.SigmaStar, true
	case f.IsFalse():
		return smt.App("re.none", smt.RegLan), true
	}
	isLowerV := func(t *smt.Term) bool { return t.Op == "uf" && t.Name == "lower" && t.Args[0] == v }
	switch f.Op {
	case "not":
		r, ok := regexOfFormula(f.Args[0], v)
		if !ok {
			return nil, false
		}
		return smt.ReInter(smt.SigmaStar, smt.ReComp(r)), true
	case "and", "or":
		var rs []*smt.Term
		for _, a := range f.Args {
			r, ok := regexOfFormula(a, v)
			if !ok {
				return nil, false
			}
			rs = append(rs, r)
		}
		if f.Op == "or" {
			return smt.ReUnion(rs...), true
		}
		r := rs[0]
		for _, x := range rs[1:] {
			r = smt.ReInter(r, x)
		}
		return r, true
	case "ite":
		if f.Sort != smt.Bool {
			return nil, false
		}
		return regexOfFormula(smt.Or(smt.And(f.Args[0], f.Args[1]), smt.And(smt.Not(f.Args[0]), f.Args[2])), v)
	case "str.in_re":
		if f.Args[0] == v {
			return f.Args[1], true
		}
	case "=":
		for i := 0; i < 2; i++ {
			a, c := f.Args[i], f.Args[1-i]
			if !c.IsConst() || c.Sort != smt.String {
				continue
			}
			if a == v {
				return smt.ReLit(c.S), true
			}
			if isLowerV(a) {
				if strings.ToLower(c.S) != c.S {
					return smt.App("re.none", smt.RegLan), true
				}
				return smt.ReCI(c.S), true
			}
		}
	case "str.contains":
		if f.Args[0] == v && f.Args[1].IsConst() {
			return smt.ReConcat(smt.SigmaStar, smt.ReLit(f.Args[1].S), smt.SigmaStar), true
		}
	case "str.prefixof":
		if f.Args[1] == v && f.Args[0].IsConst() {
			return smt.ReConcat(smt.ReLit(f.Args[0].S), smt.SigmaStar), true
		}
	case "str.suffixof":
		if f.Args[1] == v && f.Args[0].IsConst() {
			return smt.ReConcat(smt.SigmaStar, smt.ReLit(f.Args[0].S)), true
		}
	}
	return nil, false
}

func stringVarsOf(t *smt.Term) map[*smt.Term]bool {
	m := map[*smt.Term]bool{}
	smt.Walk(t, func(x *smt.Term) {
		if x.Op == "var" && x.Sort == smt.String {
			m[x] = true
		}
	})
	return m
}

// ProjectDecomps rewrites, exactly, a conjunction in which the parts of a
// registered decomposition are only constrained by regular single-variable
// formulas into one membership of the decomposed string in the product
// language; the word equation and the fresh variables disappear. It works
// inside out, so nested decompositions (Split, then TrimSpace of a part)
// collapse too. Decompositions whose parts are used in any other way are left
// alone.
func ProjectDecomps(conj []*smt.Term) []*smt.Term {
	flat := smt.And(conj...)
	var cs []*smt.Term
	if flat.Op == "and" {
		cs = append(cs, flat.Args...)
	} else {
		cs = []*smt.Term{flat}
	}
	for round := 0; round < 16; round++ {
		decompMu.Lock()
		var found []*Decomposition
		for _, c := range cs {
			if d, ok := decomps[c]; ok {
				found = append(found, d)
			}
		}
		decompMu.Unlock()
		if len(found) == 0 {
			return cs
		}
		progress := false
		for _, d := range found {
			owner := map[*smt.Term]int{}
			for i, p := range d.Parts {
				owner[p] = i
			}
			for i, w := range d.Seps {
				owner[w] = -1 - i
			}
			partLang := append([]*smt.Term(nil), d.Base...)
			var rest []*smt.Term
			ok := true
			for _, c := range cs {
				if c == d.Eq {
					continue
				}
				vars := stringVarsOf(c)
				var mine []*smt.Term
				for v := range vars {
					if _, o := owner[v]; o {
						mine = append(mine, v)
					}
				}
				if len(mine) == 0 {
					rest = append(rest, c)
					continue
				}
				if d.Own[c] {
					continue // the model's own shape constraint, already in Base / Build
				}
				if len(mine) != 1 || len(vars) != 1 || owner[mine[0]] < 0 {
					ok = false
					break
				}
				r, good := regexOfFormula(c, mine[0])
				if !good {
					ok = false
					break
				}
				i := owner[mine[0]]
				partLang[i] = smt.ReInter(partLang[i], r)
			}
			if !ok {
				continue
			}
			rest = append(rest, smt.App("str.in_re", smt.Bool, d.X, d.Build(partLang)))
			cs = rest
			progress = true
			break
		}
		if !progress {
			return cs
		}
	}
	return cs
}
