package sym

import (
	"fmt"
	"go/types"
	"strconv"
	"strings"
	"sync"

	"bmsym/smt"

	"golang.org/x/tools/go/ssa"
)

// ---- shared term-level helpers (also used by oracles in check drivers)

var (
	reWSChar    = smt.ReUnion(smt.ReRange(9, 13), smt.ReLit(" "))
	reWSStar    = smt.ReStar(reWSChar)
	reWSPlus    = smt.RePlus(reWSChar)
	reNonWSChar = smt.ReUnion(smt.ReRange(0, 8), smt.ReRange(14, 31), smt.ReRange(33, 0x7f))
	reNonWSPlus = smt.RePlus(reNonWSChar)
	// strings with no leading / trailing ASCII white space
	reTrimmed = smt.ReUnion(smt.ReLit(""), reNonWSChar, smt.ReConcat(reNonWSChar, smt.SigmaStar, reNonWSChar))
	reNoUpper = smt.ReStar(smt.ReUnion(smt.ReRange(0, 'A'-1), smt.ReRange('Z'+1, 0x7f)))
)

// Lower is the model of strings.ToLower on ASCII strings.
func Lower(x *smt.Term) *smt.Term {
	if x.IsConst() {
		return smt.StrC(strings.ToLower(x.S))
	}
	if x.Op == "str.++" {
		parts := make([]*smt.Term, len(x.Args))
		for i, a := range x.Args {
			parts[i] = Lower(a)
		}
		return smt.Concat(parts...)
	}
	if x.Op == "uf" && x.Name == "lower" {
		return x
	}
	if WideNames && mentionsTokenData(x) {
		// strings.ToLower folds two non-ASCII code points to ASCII letters:
		// U+212A KELVIN SIGN -> k and U+0130 -> i; the byte-wise ASCII folding
		// (the uninterpreted symbol with its axioms) leaves their bytes alone
		u := smt.UF("lower", smt.String, x)
		return smt.App("str.replace_all", smt.String, smt.App("str.replace_all", smt.String, u, smt.StrC(KelvinSign), smt.StrC("k")), smt.StrC(DottedI), smt.StrC("i"))
	}
	return smt.UF("lower", smt.String, x)
}

// WideNames extends the alphabet of tag names (and of every string derived
// from them) from 7-bit ASCII to ASCII plus the UTF-8 sequences of the two
// code points that strings.ToLower maps to ASCII letters. Used by the
// non-ASCII pass of C01 only.
var WideNames = false

const (
	KelvinSign = "\xe2\x84\xaa" // U+212A, lower-cased to "k"
	DottedI    = "\xc4\xb0"     // U+0130, lower-cased to "i"
)

var (
	reWideExtra   = smt.ReUnion(smt.ReLit(KelvinSign), smt.ReLit(DottedI))
	reWideStar    = smt.ReStar(smt.ReUnion(smt.ReRange(0, 0x7f), reWideExtra))
	reNoUpperWide = smt.ReStar(smt.ReUnion(smt.ReRange(0, 'A'-1), smt.ReRange('Z'+1, 0x7f), reWideExtra))
)

// Domain is the alphabet constraint of a string term.
func Domain(x *smt.Term) *smt.Term {
	if WideNames {
		return smt.InRe(x, reWideStar)
	}
	return smt.ASCII(x)
}

func mentionsTokenData(x *smt.Term) bool {
	found := false
	smt.Walk(x, func(t *smt.Term) {
		if (t.Op == "var" && strings.Contains(t.Name, ".data")) || t.Op == "select" {
			found = true
		}
	})
	return found
}

// HasToken: v contains token t (case-insensitively) delimited by ASCII white space.
func HasToken(v *smt.Term, t string) *smt.Term {
	lang := smt.ReConcat(
		smt.ReOpt(smt.ReConcat(smt.SigmaStar, reWSChar)),
		smt.ReCI(t),
		smt.ReOpt(smt.ReConcat(reWSChar, smt.SigmaStar)))
	if v.IsConst() {
		for _, f := range strings.Fields(v.S) {
			if strings.EqualFold(f, t) {
				return smt.True
			}
		}
		return smt.False
	}
	return smt.InRe(v, lang)
}

func init() {
	smt.UFFolders["lower"] = func(a []*smt.Term) *smt.Term {
		if a[0].IsConst() || a[0].Op == "str.++" || (a[0].Op == "uf" && a[0].Name == "lower") {
			return Lower(a[0])
		}
		return nil
	}
}

// URL model (assumption A3): uninterpreted parse result over the raw string.
func urlOK(raw *smt.Term) *smt.Term { return smt.UF("url.ok", smt.Bool, raw) }
func urlField(f string, raw *smt.Term) *smt.Term {
	return smt.UF("url."+f, smt.String, raw)
}
func urlNorm(raw *smt.Term) *smt.Term { return smt.UF("url.norm", smt.String, raw) }

// net/url.URL field indexes (go1.23): Scheme Opaque User Host Path RawPath OmitHost ForceQuery RawQuery Fragment RawFragment
var urlFieldNames = []string{"scheme", "opaque", "user", "host", "path", "rawpath", "omithost", "forcequery", "rawquery", "fragment", "rawfragment"}
var urlStringFields = []int{0, 1, 3, 4, 8, 9}

func urlFieldTerms(u *StructV) []*smt.Term {
	var out []*smt.Term
	for _, i := range urlStringFields {
		out = append(out, termOf(u.F[i]))
	}
	return out
}

// SideConditions instantiates the axioms of the uninterpreted library
// functions for every application occurring in the assertions, and the
// ASCII-domain constraint for every free string variable.
func SideConditions(as []*smt.Term) []*smt.Term {
	var out []*smt.Term
	seen := map[*smt.Term]bool{}
	var todo []*smt.Term
	visit := func(t *smt.Term) {
		smt.Walk(t, func(x *smt.Term) {
			if seen[x] {
				return
			}
			seen[x] = true
			todo = append(todo, x)
		})
	}
	for _, a := range as {
		visit(a)
	}
	add := func(t *smt.Term) {
		if t.IsTrue() {
			return
		}
		out = append(out, t)
		visit(t)
	}
	for len(todo) > 0 {
		x := todo[0]
		todo = todo[1:]
		switch {
		case x.Op == "var" && x.Sort == smt.String:
			add(Domain(x))
		case x.Op == "select":
			add(Domain(x))
		case x.Op == "uf" && x.Sort == smt.String:
			add(Domain(x))
		}
		if x.Op == "=" {
			// a string compared with the serialisation of a text token: then (and
			// only then) the serialisation gets its meaning, html.EscapeString
			for i := 0; i < 2; i++ {
				if t := x.Args[i]; t.Op == "uf" && t.Name == "tokstr.Text.0" {
					add(smt.Eq(t, EscapeDef(t.Args[0])))
				}
			}
			// lower(y) = c  <=>  y in CI(c)
			for i := 0; i < 2; i++ {
				l, c := x.Args[i], x.Args[1-i]
				if l.Op == "uf" && l.Name == "lower" && c.IsConst() {
					if strings.ToLower(c.S) != c.S {
						add(smt.Not(x))
					} else {
						add(smt.Eq(x, smt.InRe(l.Args[0], smt.ReCI(c.S))))
					}
				}
			}
		}
		if x.Op != "uf" {
			continue
		}
		if strings.HasPrefix(x.Name, "match.") && strings.Contains(x.Name, "barere") {
			// harness convention: the k-th bare pattern implies the k-th element
			// pattern (AllowNoAttrs().OnElementsMatching registers both)
			add(smt.Implies(x, smt.UF(strings.Replace(x.Name, "barere", "elre", 1), smt.Bool, x.Args[0])))
		}
		if strings.HasPrefix(x.Name, "rmall.") {
			v := x.Args[0]
			add(smt.Le(smt.StrLen(x), smt.StrLen(v)))
			for _, f := range HostileFragments {
				add(smt.Implies(smt.Contains(v, smt.StrC(f)), smt.Contains(x, smt.StrC(f))))
			}
		}
		switch x.Name {
		case "lower":
			y := x.Args[0]
			add(smt.Eq(smt.StrLen(x), smt.StrLen(y)))
			if WideNames {
				add(smt.InRe(x, reNoUpperWide))
				add(smt.Implies(smt.InRe(y, reNoUpperWide), smt.Eq(x, y)))
			} else {
				add(smt.InRe(x, reNoUpper))
				add(smt.Implies(smt.InRe(y, reNoUpper), smt.Eq(x, y)))
			}
			// lower-casing keeps every occurrence of a letter-case-insensitive fragment
			for _, f := range HostileFragments {
				if !LowerFragmentAxioms {
					break
				}
				add(smt.Eq(smt.App("str.contains", smt.Bool, x, smt.StrC(f)), smt.InRe(y, smt.ReConcat(smt.SigmaStar, smt.ReCI(f), smt.SigmaStar))))
			}
		case "qbody":
			y := x.Args[0]
			plain := smt.InRe(y, rePlainQuote)
			add(smt.Ite(plain, smt.Eq(x, y), smt.Contains(x, smt.StrC("\\"))))
		case "url.ok":
			// url.Parse rejects ASCII control characters
			add(smt.Implies(x, smt.InRe(x.Args[0], reNoCtl)))
		case "vurl.ok":
			// summary of validURL (established on the real code by HarnessC20_validURL):
			// an accepted value's result is accepted again and is its own result
			r := x.Args[0]
			out := smt.UF("vurl.out", smt.String, r)
			if !(r.Op == "uf" && r.Name == "vurl.out") {
				add(smt.Implies(x, smt.And(smt.UF("vurl.ok", smt.Bool, out), smt.Eq(smt.UF("vurl.out", smt.String, out), out))))
			}
		case "url.norm":
			r := x.Args[0]
			// URL.String() escapes white space and control characters
			add(smt.Implies(urlOK(r), smt.InRe(x, reNoWSCtl)))
			add(smt.Implies(urlOK(r), smt.And(
				urlOK(x),
				smt.Eq(urlField("scheme", x), urlField("scheme", r)),
				smt.Eq(urlField("host", x), urlField("host", r)),
			)))
			if !(r.Op == "uf" && r.Name == "url.norm") {
				add(smt.Implies(urlOK(r), smt.Eq(urlNorm(x), x)))
			}
		case "url.scheme":
			// schemes are lower-case [a-z][a-z0-9+.-]* or empty
			add(smt.InRe(x, reScheme))
			// net/url's getScheme: the scheme is what precedes the first colon when
			// that prefix is a letter followed by letters, digits, + - . ; otherwise
			// there is none
			r := x.Args[0]
			if !SchemeAxiom {
				break
			}
			has := smt.InRe(r, reHasScheme)
			idx := smt.IndexOf(r, smt.StrC(":"), smt.IntC(0))
			add(smt.Implies(urlOK(r), smt.Ite(has, smt.Eq(x, Lower(smt.Substr(r, smt.IntC(0), idx))), smt.Eq(x, smt.StrC("")))))
		case "trimspace":
			// functional characterisation is added where the application is created
		case "esc":
			add(smt.Not(smt.InRe(x, reHasMarkup)))
		}
	}
	return out
}

// SchemeAxiom enables the structural axiom relating url.scheme(s) to the
// text of s (net/url's getScheme). Checks that only need scheme(norm(s)) =
// scheme(s) switch it off to keep queries light.
var SchemeAxiom = true

// LowerFragmentAxioms adds, per ToLower application, the facts that hostile
// fragments are preserved by lower-casing (needed by C18 only).
var LowerFragmentAxioms = false

// HostileFragments are the substrings C18 forbids in accepted CSS values.
var HostileFragments = []string{"<", ">", "\\", "@", "expression(", "javascript:", "data:", "url("}

var (
	// printable ASCII without " and \  (strconv.QuoteToASCII leaves these as is)
	rePlainQuote = smt.ReStar(smt.ReUnion(smt.ReRange(0x20, 0x21), smt.ReRange(0x23, 0x5b), smt.ReRange(0x5d, 0x7e)))
	reNoCtl      = smt.ReStar(smt.ReRange(0x20, 0x7e))
	reScheme     = smt.ReUnion(smt.ReLit(""), smt.ReConcat(smt.ReRange('a', 'z'), smt.ReStar(smt.ReUnion(smt.ReRange('a', 'z'), smt.ReRange('0', '9'), smt.ReLit("+"), smt.ReLit("."), smt.ReLit("-")))))
	reHasScheme  = smt.ReConcat(smt.ReUnion(smt.ReRange('a', 'z'), smt.ReRange('A', 'Z')), smt.ReStar(smt.ReUnion(smt.ReRange('a', 'z'), smt.ReRange('A', 'Z'), smt.ReRange('0', '9'), smt.ReLit("+"), smt.ReLit("."), smt.ReLit("-"))), smt.ReLit(":"), smt.SigmaStar)
	reNoWSCtl    = smt.ReStar(smt.ReRange(0x21, 0x7e))
	reHasMarkup  = smt.ReConcat(smt.SigmaStar, smt.ReUnion(smt.ReLit("<"), smt.ReLit(">"), smt.ReLit("\""), smt.ReLit("'")), smt.SigmaStar)
)

var tokenKindCode = map[string]int{"Error": 0, "Text": 1, "StartTag": 2, "EndTag": 3, "SelfClosing": 4, "Comment": 5, "Doctype": 6}
var tokenKindName = []string{"Error", "Text", "StartTag", "EndTag", "SelfClosing", "Comment", "Doctype"}

// memo caches relational model results per path so that repeated calls on the
// same term yield the same fresh variables.
func memo(st *State, key string, mk func() Value) Value {
	if v, ok := st.Ghost["memo:"+key]; ok {
		return v
	}
	v := mk()
	st.Ghost["memo:"+key] = v
	return v
}

// TrimSpaceTerm returns (t, constraint) for t = TrimSpace(x).
func trimSpace(st *State, x *smt.Term) *smt.Term {
	if x.IsConst() {
		return smt.StrC(strings.TrimSpace(x.S))
	}
	// A3: URL.String() (and the validURL summary's result) contains no white space
	if x.Op == "uf" && (x.Name == "url.norm" || x.Name == "vurl.out") {
		return x
	}
	return memo(st, fmt.Sprintf("trimspace:%d", x.ID()), func() Value {
		l := st.fresh("ts.l", smt.String)
		t := st.fresh("ts.t", smt.String)
		r := st.fresh("ts.r", smt.String)
		eq := smt.Eq(x, smt.Concat(l, t, r))
		st.assume(eq)
		st.assume(smt.InRe(l, reWSStar))
		st.assume(smt.InRe(r, reWSStar))
		st.assume(smt.InRe(t, reTrimmed))
		registerDecomp(&Decomposition{Eq: eq, X: x, Parts: []*smt.Term{t}, Seps: []*smt.Term{l, r}, Base: []*smt.Term{reTrimmed},
			Own:   map[*smt.Term]bool{smt.InRe(l, reWSStar): true, smt.InRe(r, reWSStar): true, smt.InRe(t, reTrimmed): true},
			Build: func(pl []*smt.Term) *smt.Term { return smt.ReConcat(reWSStar, pl[0], reWSStar) }})
		return t
	}).(*smt.Term)
}

func trimPrefixTerm(s *smt.Term, p string) *smt.Term {
	if s.IsConst() {
		return smt.StrC(strings.TrimPrefix(s.S, p))
	}
	if p == "" {
		return s
	}
	if s.Op == "str.++" && s.Args[0].IsConst() && len(s.Args[0].S) >= len(p) {
		if strings.HasPrefix(s.Args[0].S, p) {
			rest := append([]*smt.Term{smt.StrC(s.Args[0].S[len(p):])}, s.Args[1:]...)
			return smt.Concat(rest...)
		}
		return s
	}
	pt := smt.StrC(p)
	return smt.Ite(smt.PrefixOf(pt, s), smt.Substr(s, smt.IntC(int64(len(p))), smt.Sub(smt.StrLen(s), smt.IntC(int64(len(p))))), s)
}

func trimSuffixTerm(s *smt.Term, p string) *smt.Term {
	if s.IsConst() {
		return smt.StrC(strings.TrimSuffix(s.S, p))
	}
	if p == "" {
		return s
	}
	if s.Op == "str.++" {
		last := s.Args[len(s.Args)-1]
		if last.IsConst() && len(last.S) >= len(p) {
			if strings.HasSuffix(last.S, p) {
				rest := append(append([]*smt.Term{}, s.Args[:len(s.Args)-1]...), smt.StrC(last.S[:len(last.S)-len(p)]))
				return smt.Concat(rest...)
			}
			return s
		}
	}
	pt := smt.StrC(p)
	return smt.Ite(smt.SuffixOf(pt, s), smt.Substr(s, smt.IntC(0), smt.Sub(smt.StrLen(s), smt.IntC(int64(len(p))))), s)
}

func newSlice(in *Interp, st *State, elems []Value) SliceV {
	if len(elems) == 0 {
		// non-nil empty slice
		id := in.alloc(st, &ArrayV{})
		return SliceV{Arr: id}
	}
	id := in.alloc(st, &ArrayV{E: elems})
	return SliceV{Arr: id, Len: len(elems), Cap: len(elems)}
}

func sliceElems(st *State, v Value) []Value {
	s := v.(SliceV)
	if s.Arr == 0 {
		return nil
	}
	arr := st.Heap[s.Arr].(*ArrayV)
	return arr.E[s.Off : s.Off+s.Len]
}

// bindRet returns an Alt whose effect computes the value on the target state.
func effRet(f func(st *State) Value) Alt {
	return Alt{Ret: retFromEnv{}, Eff: func(st *State) {
		v := f(st)
		if st.Status != Running {
			return
		}
		fr := st.top()
		if iv, ok := fr.Block.Instrs[fr.IP].(ssa.Value); ok {
			fr.Env[iv] = v
		}
	}}
}

// bytesOf reads a []byte value (string view, or an empty concrete slice).
func bytesOf(v Value) *smt.Term {
	switch b := v.(type) {
	case BytesV:
		return b.S
	case SliceV:
		if b.Len == 0 {
			return smt.StrC("")
		}
	}
	panic(fmt.Sprintf("unsupported []byte value %T", v))
}

// NewSliceValue builds a concrete slice value on a state.
func (in *Interp) NewSliceValue(st *State, elems []Value) Value { return newSlice(in, st, elems) }

// SliceElems exposes the elements of a concrete slice value.
func SliceElems(st *State, v Value) []Value { return sliceElems(st, v) }

func regexOf(st *State, v Value) *RegexObj {
	p := v.(Ptr)
	if p.Obj == 0 {
		panic("nil *regexp.Regexp")
	}
	return st.Heap[p.Obj].(*RegexObj)
}

// MatchTerm is the formula for r.MatchString(s).
func MatchTerm(r *RegexObj, s *smt.Term) *smt.Term {
	if r.Known != nil {
		if r.Known.Unsupported != "" {
			return smt.UF("match.unsupported."+fmt.Sprint(r.ID), smt.Bool, s)
		}
		return r.Known.Match(s)
	}
	return smt.UF("match."+r.Opaque, smt.Bool, s)
}

func registerModels(in *Interp) {
	M := in.Models
	str1 := func(f func(st *State, a *smt.Term) *smt.Term) Model {
		return func(in *Interp, st *State, cc *ssa.CallCommon, args []Value) []Alt {
			return []Alt{effRet(func(st *State) Value { return f(st, termOf(args[0])) })}
		}
	}
	// errors.Is(err, target): identity for equal (sentinel) values; an opaque
	// error of another type may or may not wrap the target - both outcomes are
	// explored ("wraps" is a property of the environment's error value).
	M["errors.Is"] = func(in *Interp, st *State, cc *ssa.CallCommon, args []Value) []Alt {
		a, aok := args[0].(IfaceV)
		b, bok := args[1].(IfaceV)
		if !aok || !bok {
			return []Alt{{Stop: Unsupported, Why: "errors.Is on non-interface values"}}
		}
		if a.T == nil || b.T == nil {
			return one(smt.BoolC(a.T == nil && b.T == nil))
		}
		if e := valueEq(a, b); e.IsConst() && e.B {
			return one(smt.True)
		}
		if oa, ok := a.V.(*OpaqueV); ok && oa.Kind == "err" {
			return []Alt{{Ret: smt.True, Eff: func(st *State) { st.Ghost["note:error-wraps-target"] = smt.True }}, {Ret: smt.False}}
		}
		return []Alt{{Stop: Unsupported, Why: "errors.Is on a concrete error value"}}
	}
	M["strings.ToLower"] = str1(func(st *State, a *smt.Term) *smt.Term { return Lower(a) })
	M["strings.TrimSpace"] = str1(trimSpace)
	M["bytes.TrimSpace"] = func(in *Interp, st *State, cc *ssa.CallCommon, args []Value) []Alt {
		return []Alt{effRet(func(st *State) Value { return BytesV{S: trimSpace(st, args[0].(BytesV).S)} })}
	}
	M["strings.Contains"] = func(in *Interp, st *State, cc *ssa.CallCommon, args []Value) []Alt {
		return one(smt.Contains(termOf(args[0]), termOf(args[1])))
	}
	M["strings.ContainsAny"] = func(in *Interp, st *State, cc *ssa.CallCommon, args []Value) []Alt {
		chars := termOf(args[1])
		if !chars.IsConst() {
			return []Alt{{Stop: Unsupported, Why: "strings.ContainsAny with a symbolic character set"}}
		}
		var ds []*smt.Term
		for i := 0; i < len(chars.S); i++ {
			if chars.S[i] >= 0x80 {
				return []Alt{{Stop: Unsupported, Why: "strings.ContainsAny with a non-ASCII character set"}}
			}
			ds = append(ds, smt.Contains(termOf(args[0]), smt.StrC(chars.S[i:i+1])))
		}
		return one(smt.Or(ds...))
	}
	M["strings.ContainsRune"] = func(in *Interp, st *State, cc *ssa.CallCommon, args []Value) []Alt {
		r := termOf(args[1])
		if !r.IsConst() || r.I >= 0x80 {
			return []Alt{{Stop: Unsupported, Why: "strings.ContainsRune with a symbolic or non-ASCII rune"}}
		}
		return one(smt.Contains(termOf(args[0]), smt.StrC(string(rune(r.I)))))
	}
	M["strings.HasPrefix"] = func(in *Interp, st *State, cc *ssa.CallCommon, args []Value) []Alt {
		return one(smt.PrefixOf(termOf(args[1]), termOf(args[0])))
	}
	M["strings.HasSuffix"] = func(in *Interp, st *State, cc *ssa.CallCommon, args []Value) []Alt {
		return one(smt.SuffixOf(termOf(args[1]), termOf(args[0])))
	}
	M["strings.Index"] = func(in *Interp, st *State, cc *ssa.CallCommon, args []Value) []Alt {
		return one(smt.IndexOf(termOf(args[0]), termOf(args[1]), smt.IntC(0)))
	}
	M["strings.TrimPrefix"] = func(in *Interp, st *State, cc *ssa.CallCommon, args []Value) []Alt {
		p := termOf(args[1])
		if !p.IsConst() {
			panic("TrimPrefix with symbolic prefix")
		}
		return one(trimPrefixTerm(termOf(args[0]), p.S))
	}
	M["strings.TrimSuffix"] = func(in *Interp, st *State, cc *ssa.CallCommon, args []Value) []Alt {
		p := termOf(args[1])
		if !p.IsConst() {
			panic("TrimSuffix with symbolic suffix")
		}
		return one(trimSuffixTerm(termOf(args[0]), p.S))
	}
	M["strings.TrimRight"] = func(in *Interp, st *State, cc *ssa.CallCommon, args []Value) []Alt {
		x, cut := termOf(args[0]), termOf(args[1])
		if !cut.IsConst() {
			panic("TrimRight with symbolic cutset")
		}
		if x.IsConst() {
			return one(smt.StrC(strings.TrimRight(x.S, cut.S)))
		}
		var cs, ncs []*smt.Term
		for c := 0; c < 128; c++ {
			if strings.IndexByte(cut.S, byte(c)) >= 0 {
				cs = append(cs, smt.ReLit(string([]byte{byte(c)})))
			}
		}
		// complement as ranges
		prev := 0
		for c := 0; c <= 128; c++ {
			if c == 128 || strings.IndexByte(cut.S, byte(c)) >= 0 {
				if c > prev {
					ncs = append(ncs, smt.ReRange(byte(prev), byte(c-1)))
				}
				prev = c + 1
			}
		}
		cutRe, nonCut := smt.ReUnion(cs...), smt.ReUnion(ncs...)
		return []Alt{effRet(func(st *State) Value {
			return memo(st, fmt.Sprintf("trimright:%d:%s", x.ID(), cut.S), func() Value {
				t := st.fresh("tr.t", smt.String)
				r := st.fresh("tr.r", smt.String)
				st.assume(smt.Eq(x, smt.Concat(t, r)))
				st.assume(smt.InRe(r, smt.ReStar(cutRe)))
				st.assume(smt.InRe(t, smt.ReUnion(smt.ReLit(""), smt.ReConcat(smt.SigmaStar, nonCut))))
				return t
			})
		})}
	}
	M["strings.TrimLeft"] = func(in *Interp, st *State, cc *ssa.CallCommon, args []Value) []Alt {
		x, cut := termOf(args[0]), termOf(args[1])
		if !cut.IsConst() {
			return []Alt{{Stop: Unsupported, Why: "strings.TrimLeft with a symbolic cutset"}}
		}
		if x.IsConst() {
			return one(smt.StrC(strings.TrimLeft(x.S, cut.S)))
		}
		var cs, ncs []*smt.Term
		for c := 0; c < 128; c++ {
			if strings.IndexByte(cut.S, byte(c)) >= 0 {
				cs = append(cs, smt.ReLit(string([]byte{byte(c)})))
			}
		}
		prev := 0
		for c := 0; c <= 128; c++ {
			if c == 128 || strings.IndexByte(cut.S, byte(c)) >= 0 {
				if c > prev {
					ncs = append(ncs, smt.ReRange(byte(prev), byte(c-1)))
				}
				prev = c + 1
			}
		}
		cutRe, nonCut := smt.ReUnion(cs...), smt.ReUnion(ncs...)
		return []Alt{effRet(func(st *State) Value {
			return memo(st, fmt.Sprintf("trimleft:%d:%s", x.ID(), cut.S), func() Value {
				l := st.fresh("tl.l", smt.String)
				t := st.fresh("tl.t", smt.String)
				st.assume(smt.Eq(x, smt.Concat(l, t)))
				st.assume(smt.InRe(l, smt.ReStar(cutRe)))
				st.assume(smt.InRe(t, smt.ReUnion(smt.ReLit(""), smt.ReConcat(nonCut, smt.SigmaStar))))
				return t
			})
		})}
	}
	M["strings.Replace"] = func(in *Interp, st *State, cc *ssa.CallCommon, args []Value) []Alt {
		n := termOf(args[3])
		if !n.IsConst() || n.I >= 0 {
			panic("strings.Replace with n >= 0")
		}
		return one(smt.ReplaceAll(termOf(args[0]), termOf(args[1]), termOf(args[2])))
	}
	M["strings.ReplaceAll"] = func(in *Interp, st *State, cc *ssa.CallCommon, args []Value) []Alt {
		return one(smt.ReplaceAll(termOf(args[0]), termOf(args[1]), termOf(args[2])))
	}
	M["strings.Join"] = func(in *Interp, st *State, cc *ssa.CallCommon, args []Value) []Alt {
		sep := termOf(args[1])
		var parts []*smt.Term
		for i, e := range sliceElems(st, args[0]) {
			if i > 0 {
				parts = append(parts, sep)
			}
			parts = append(parts, termOf(e))
		}
		return one(smt.Concat(parts...))
	}
	M["strings.Repeat"] = func(in *Interp, st *State, cc *ssa.CallCommon, args []Value) []Alt {
		s, n := termOf(args[0]), termOf(args[1])
		rep := func(k int) *smt.Term {
			ps := make([]*smt.Term, k)
			for i := range ps {
				ps[i] = s
			}
			return smt.Concat(ps...)
		}
		if n.IsConst() {
			if n.I < 0 {
				in.safety(st, smt.False, "strings.Repeat-negative-count")
				return nil
			}
			return one(rep(int(n.I)))
		}
		if !in.safety(st, smt.Le(smt.IntC(0), n), "strings.Repeat-negative-count") {
			return nil
		}
		var alts []Alt
		for k := 0; k <= 8; k++ {
			alts = append(alts, Alt{Cond: smt.Eq(n, smt.IntC(int64(k))), Ret: rep(k)})
		}
		alts = append(alts, Alt{Cond: smt.Lt(smt.IntC(8), n), Stop: Cut, Why: "strings.Repeat count > 8"})
		return alts
	}
	M["strings.EqualFold"] = func(in *Interp, st *State, cc *ssa.CallCommon, args []Value) []Alt {
		a, b := termOf(args[0]), termOf(args[1])
		if a.IsConst() && b.IsConst() {
			return one(smt.BoolC(strings.EqualFold(a.S, b.S)))
		}
		if a.IsConst() {
			return one(smt.InRe(b, smt.ReCI(a.S)))
		}
		if b.IsConst() {
			return one(smt.InRe(a, smt.ReCI(b.S)))
		}
		return one(smt.Eq(Lower(a), Lower(b)))
	}
	M["strings.Split"] = func(in *Interp, st *State, cc *ssa.CallCommon, args []Value) []Alt {
		return splitModel(in, st, termOf(args[0]), termOf(args[1]))
	}
	M["strings.Fields"] = func(in *Interp, st *State, cc *ssa.CallCommon, args []Value) []Alt {
		return fieldsModel(in, st, termOf(args[0]))
	}
	M["strings.NewReader"] = func(in *Interp, st *State, cc *ssa.CallCommon, args []Value) []Alt {
		return []Alt{effRet(func(st *State) Value { return Ptr{Obj: in.alloc(st, &ReaderObj{S: termOf(args[0])})} })}
	}
	M["bytes.NewReader"] = func(in *Interp, st *State, cc *ssa.CallCommon, args []Value) []Alt {
		return []Alt{effRet(func(st *State) Value { return Ptr{Obj: in.alloc(st, &ReaderObj{S: args[0].(BytesV).S})} })}
	}
	// bytes.Buffer
	bufOf := func(st *State, v Value) (Ptr, *BufObj) {
		p := v.(Ptr)
		return p, in.load(st, p).(*BufObj)
	}
	M["(*bytes.Buffer).WriteString"] = func(in *Interp, st *State, cc *ssa.CallCommon, args []Value) []Alt {
		s := termOf(args[1])
		return []Alt{{Ret: TupleV{smt.StrLen(s), IfaceV{}}, Eff: func(st *State) {
			p, b := bufOf(st, args[0])
			in.store(st, p, &BufObj{S: smt.Concat(b.S, s)})
		}}}
	}
	M["(*bytes.Buffer).Write"] = func(in *Interp, st *State, cc *ssa.CallCommon, args []Value) []Alt {
		s := args[1].(BytesV).S
		return []Alt{{Ret: TupleV{smt.StrLen(s), IfaceV{}}, Eff: func(st *State) {
			p, b := bufOf(st, args[0])
			in.store(st, p, &BufObj{S: smt.Concat(b.S, s)})
		}}}
	}
	M["(*bytes.Buffer).String"] = func(in *Interp, st *State, cc *ssa.CallCommon, args []Value) []Alt {
		if isNilPtr(args[0]) {
			return one(smt.StrC("<nil>"))
		}
		_, b := bufOf(st, args[0])
		return one(b.S)
	}
	M["(*bytes.Buffer).Bytes"] = func(in *Interp, st *State, cc *ssa.CallCommon, args []Value) []Alt {
		_, b := bufOf(st, args[0])
		return one(BytesV{S: b.S})
	}
	M["(*bytes.Buffer).Len"] = func(in *Interp, st *State, cc *ssa.CallCommon, args []Value) []Alt {
		_, b := bufOf(st, args[0])
		return one(smt.StrLen(b.S))
	}
	// strconv
	M["strconv.QuoteToASCII"] = func(in *Interp, st *State, cc *ssa.CallCommon, args []Value) []Alt {
		s := termOf(args[0])
		if s.IsConst() {
			return one(smt.StrC(quoteToASCII(s.S)))
		}
		return one(smt.Concat(smt.StrC(`"`), smt.UF("qbody", smt.String, s), smt.StrC(`"`)))
	}
	// fmt
	M["fmt.Println"] = func(in *Interp, st *State, cc *ssa.CallCommon, args []Value) []Alt {
		return one(TupleV{smt.IntC(0), IfaceV{}})
	}
	M["fmt.Errorf"] = func(in *Interp, st *State, cc *ssa.CallCommon, args []Value) []Alt {
		in.mu.Lock()
		in.nextObj++
		id := in.nextObj
		in.mu.Unlock()
		return one(IfaceV{T: errType("fmt.Errorf"), V: &OpaqueV{Kind: "err", ID: id}})
	}
	// regexp
	M["regexp.MustCompile"] = func(in *Interp, st *State, cc *ssa.CallCommon, args []Value) []Alt {
		src := termOf(args[0])
		if !src.IsConst() {
			panic("regexp.MustCompile of non-constant pattern")
		}
		k := smt.Translate(src.S)
		if k.Re == nil {
			in.safety(st, smt.False, "regexp.MustCompile-panics")
			return nil
		}
		return []Alt{effRet(func(st *State) Value {
			id := in.alloc(st, nil)
			st.Heap[id] = &RegexObj{Known: k, ID: id}
			return Ptr{Obj: id}
		})}
	}
	M["(*regexp.Regexp).MatchString"] = func(in *Interp, st *State, cc *ssa.CallCommon, args []Value) []Alt {
		if isNilPtr(args[0]) {
			in.safety(st, smt.False, "nil-dereference")
			return nil
		}
		return one(MatchTerm(regexOf(st, args[0]), termOf(args[1])))
	}
	M["(*regexp.Regexp).FindString"] = func(in *Interp, st *State, cc *ssa.CallCommon, args []Value) []Alt {
		r := regexOf(st, args[0])
		s := termOf(args[1])
		if r.Known == nil || r.Known.Re == nil {
			panic("FindString on opaque regexp")
		}
		if s.IsConst() {
			return one(smt.StrC(r.Known.Re.FindString(s.S)))
		}
		return []Alt{effRet(func(st *State) Value {
			return memo(st, fmt.Sprintf("find:%d:%d", r.ID, s.ID()), func() Value {
				res := st.fresh("find", smt.String)
				m := MatchTerm(r, s)
				cs := []*smt.Term{smt.Implies(smt.Not(m), smt.Eq(res, smt.StrC("")))}
				if r.Known.Full != nil && fullyAnchored(r.Known) {
					// ^...$ : the match, if any, is the whole string
					cs = append(cs, smt.Implies(m, smt.Eq(res, s)))
				} else if body, anchoredBegin := anchoredBody(r.Known); anchoredBegin {
					// a begin-anchored pattern matches a prefix that is in the body language
					cs = append(cs, smt.Implies(m, smt.And(smt.PrefixOf(res, s), smt.InRe(res, body))))
				} else {
					cs = append(cs, smt.Implies(m, smt.Contains(s, res)))
					st.Assumed = append(st.Assumed, "FindString on unanchored pattern modelled loosely (result is some substring)")
				}
				st.assume(smt.And(cs...))
				return res
			})
		})}
	}
	M["(*regexp.Regexp).ReplaceAll"] = func(in *Interp, st *State, cc *ssa.CallCommon, args []Value) []Alt {
		r := regexOf(st, args[0])
		src := bytesOf(args[1])
		repl := bytesOf(args[2])
		if r.Known == nil || r.Known.Re == nil || !repl.IsConst() {
			panic("ReplaceAll on opaque regexp or with symbolic replacement")
		}
		if src.IsConst() {
			return one(BytesV{S: smt.StrC(string(r.Known.Re.ReplaceAll([]byte(src.S), []byte(repl.S))))})
		}
		if repl.S != "" {
			panic("ReplaceAll with non-empty replacement")
		}
		st.Assumed = append(st.Assumed, "regexp.ReplaceAll(v, \"\") is an uninterpreted function that neither deletes nor creates a hostile fragment")
		return one(BytesV{S: smt.UF("rmall."+fmt.Sprint(r.ID), smt.String, src)})
	}
	M["(*regexp.Regexp).FindStringIndex"] = func(in *Interp, st *State, cc *ssa.CallCommon, args []Value) []Alt {
		r := regexOf(st, args[0])
		s := termOf(args[1])
		if r.Known == nil || r.Known.Re == nil || r.Known.Unsupported != "" {
			panic("FindStringIndex on opaque or untranslatable regexp")
		}
		if s.IsConst() {
			loc := r.Known.Re.FindStringIndex(s.S)
			if loc == nil {
				return one(SliceV{})
			}
			return []Alt{effRet(func(st *State) Value {
				return newSlice(in, st, []Value{smt.IntC(int64(loc[0])), smt.IntC(int64(loc[1]))})
			})}
		}
		// body language: the pattern must be anchor free
		body := r.Known.Body
		anch := false
		smt.Walk(body, func(x *smt.Term) {
			if x.IsConst() && (strings.Contains(x.S, smt.MarkB) || strings.Contains(x.S, smt.MarkE)) {
				anch = true
			}
		})
		if anch {
			panic("FindStringIndex model needs an anchor-free pattern")
		}
		m := MatchTerm(r, s)
		st.Calls["model:FindStringIndex"]++
		max := in.Cfg.Params["maxFindIndex"]
		if max == 0 {
			max = 2
		}
		alts := []Alt{{Cond: smt.Not(m), Ret: SliceV{}}}
		if st.Calls["model:FindStringIndex"] > max {
			alts = append(alts, Alt{Cond: m, Stop: Cut, Why: fmt.Sprintf("more than %d regexp matches in one value", max), Eff: func(st *State) {
				st.Assumed = append(st.Assumed, fmt.Sprintf("FindStringIndex>%d", max))
			}})
			return alts
		}
		found := effRet(func(st *State) Value {
			a := st.fresh("fsi.a", smt.Int)
			b := st.fresh("fsi.b", smt.Int)
			st.assume(smt.And(smt.Le(smt.IntC(0), a), smt.Le(a, b), smt.Le(b, smt.StrLen(s)),
				smt.InRe(smt.Substr(s, a, smt.Sub(b, a)), body)))
			return newSlice(in, st, []Value{a, b})
		})
		found.Cond = m
		return append(alts, found)
	}
	M["strconv.Unquote"] = func(in *Interp, st *State, cc *ssa.CallCommon, args []Value) []Alt {
		s := termOf(args[0])
		if s.IsConst() {
			v, err := strconv.Unquote(s.S)
			if err != nil {
				return one(TupleV{smt.StrC(""), IfaceV{T: errType("strconv"), V: &OpaqueV{Kind: "err", ID: 3}}})
			}
			return one(TupleV{smt.StrC(v), IfaceV{}})
		}
		okT := smt.UF("unquote.ok", smt.Bool, s)
		return []Alt{
			{Cond: okT, Ret: TupleV{smt.UF("unquote", smt.String, s), IfaceV{}}},
			{Cond: smt.Not(okT), Ret: TupleV{smt.StrC(""), IfaceV{T: errType("strconv"), V: &OpaqueV{Kind: "err", ID: 3}}}},
		}
	}
	M["(*encoding/base64.Encoding).DecodeString"] = func(in *Interp, st *State, cc *ssa.CallCommon, args []Value) []Alt {
		s := termOf(args[1])
		okT := smt.UF("base64.ok", smt.Bool, s)
		return []Alt{
			{Cond: okT, Ret: TupleV{BytesV{S: smt.UF("base64.dec", smt.String, s)}, IfaceV{}}},
			{Cond: smt.Not(okT), Ret: TupleV{BytesV{S: smt.StrC(""), Nil: true}, IfaceV{T: errType("base64"), V: &OpaqueV{Kind: "err", ID: 4}}}},
		}
	}
	// net/url
	M["net/url.Parse"] = func(in *Interp, st *State, cc *ssa.CallCommon, args []Value) []Alt {
		raw := termOf(args[0])
		ok := urlOK(raw)
		urlT := cc.Signature().Results().At(0).Type().(*types.Pointer).Elem()
		in.mu.Lock()
		in.nextObj++
		eid := in.nextObj
		in.mu.Unlock()
		return []Alt{
			{Cond: smt.Not(ok), Ret: TupleV{Ptr{}, IfaceV{T: errType("url.Parse"), V: &OpaqueV{Kind: "err", ID: eid}}}},
			{Cond: ok, Ret: retFromEnv{}, Eff: func(st *State) {
				u := in.zero(urlT).(*StructV)
				nu := &StructV{F: append([]Value(nil), u.F...)}
				for _, i := range urlStringFields {
					nu.F[i] = urlField(urlFieldNames[i], raw)
				}
				id := in.alloc(st, nu)
				st.Ghost[fmt.Sprintf("urlraw:%d", id)] = raw
				fr := st.top()
				fr.Env[fr.Block.Instrs[fr.IP].(ssa.Value)] = TupleV{Ptr{Obj: id}, IfaceV{}}
			}},
		}
	}
	M["(*net/url.URL).String"] = func(in *Interp, st *State, cc *ssa.CallCommon, args []Value) []Alt {
		p := args[0].(Ptr)
		if p.Obj == 0 {
			in.safety(st, smt.False, "nil-dereference")
			return nil
		}
		u := in.load(st, p).(*StructV)
		if raw, ok := st.Ghost[fmt.Sprintf("urlraw:%d", p.Obj)]; ok {
			r := raw.(*smt.Term)
			same := true
			for _, i := range urlStringFields {
				if u.F[i] != Value(urlField(urlFieldNames[i], r)) {
					same = false
				}
			}
			if same {
				return one(urlNorm(r))
			}
		}
		return one(smt.UF("url.string", smt.String, urlFieldTerms(u)...))
	}
	M["golang.org/x/net/html.EscapeString"] = func(in *Interp, st *State, cc *ssa.CallCommon, args []Value) []Alt {
		return one(smt.UF("esc", smt.String, termOf(args[0])))
	}
	// douceur
	M["github.com/aymerick/douceur/parser.ParseDeclarations"] = func(in *Interp, st *State, cc *ssa.CallCommon, args []Value) []Alt {
		src := termOf(args[0])
		declPtrT := cc.Signature().Results().At(0).Type().Underlying().(*types.Slice).Elem()
		declT := declPtrT.(*types.Pointer).Elem()
		in.mu.Lock()
		in.nextObj++
		eid := in.nextObj
		in.mu.Unlock()
		alts := []Alt{{Ret: TupleV{SliceV{}, IfaceV{T: errType("css.parse"), V: &OpaqueV{Kind: "err", ID: eid}}}, Eff: func(st *State) {
			st.Ghost["decls"] = []Value{}
			st.Ghost["declsErr"] = smt.True
			st.Ghost["declsSrc"] = src
		}}}
		dmax := in.Cfg.DeclsMax
		if dmax == 0 {
			dmax = 2
		}
		for n := 0; n <= dmax; n++ {
			n := n
			alts = append(alts, Alt{Ret: retFromEnv{}, Eff: func(st *State) {
				var elems []Value
				var ghost []Value
				for i := 0; i < n; i++ {
					prop := st.fresh(fmt.Sprintf("decl%d.prop", i), smt.String)
					val := st.fresh(fmt.Sprintf("decl%d.val", i), smt.String)
					imp := st.fresh(fmt.Sprintf("decl%d.important", i), smt.Bool)
					d := in.zero(declT).(*StructV)
					nd := &StructV{F: append([]Value(nil), d.F...)}
					nd.F[0], nd.F[1], nd.F[2] = prop, val, imp
					id := in.alloc(st, nd)
					elems = append(elems, Ptr{Obj: id})
					ghost = append(ghost, nd)
				}
				st.Ghost["decls"] = ghost
				st.Ghost["declsSrc"] = src
				sl := newSlice(in, st, elems)
				fr := st.top()
				fr.Env[fr.Block.Instrs[fr.IP].(ssa.Value)] = TupleV{sl, IfaceV{}}
			}})
		}
		return alts
	}
	registerTokenizer(in)
}

// fullyAnchored: the pattern is ^body$ with no other anchors.
func fullyAnchored(k *smt.Known) bool {
	if k == nil || k.Body == nil || k.Unsupported != "" {
		return false
	}
	b := k.Body
	if b.Op != "re.++" {
		return false
	}
	first, last := b.Args[0], b.Args[len(b.Args)-1]
	if first.Op != "str.to_re" || !strings.HasPrefix(first.Args[0].S, smt.MarkB) || last.Op != "str.to_re" || !strings.HasSuffix(last.Args[0].S, smt.MarkE) {
		return false
	}
	n := 0
	smt.Walk(b, func(x *smt.Term) {
		if x.IsConst() {
			n += strings.Count(x.S, smt.MarkB) + strings.Count(x.S, smt.MarkE)
		}
	})
	return n == 2
}

func anchoredBody(k *smt.Known) (*smt.Term, bool) {
	if k == nil || k.Body == nil || k.Unsupported != "" {
		return nil, false
	}
	b := k.Body
	if b.Op == "re.++" && b.Args[0].Op == "str.to_re" && strings.HasPrefix(b.Args[0].Args[0].S, smt.MarkB) {
		first := smt.ReLit(b.Args[0].Args[0].S[len(smt.MarkB):])
		rest := append([]*smt.Term{first}, b.Args[1:]...)
		body := smt.ReConcat(rest...)
		// no further markers allowed
		bad := false
		smt.Walk(body, func(x *smt.Term) {
			if x.IsConst() && (strings.Contains(x.S, smt.MarkB) || strings.Contains(x.S, smt.MarkE)) {
				bad = true
			}
		})
		if !bad {
			return body, true
		}
	}
	return nil, false
}

func quoteToASCII(s string) string {
	// only used on constants: defer to the real function semantics
	return strconvQuoteToASCII(s)
}

// splitModel: strings.Split(x, sep) for constant non-empty sep.
func splitModel(in *Interp, st *State, x, sep *smt.Term) []Alt {
	if !sep.IsConst() || sep.S == "" {
		panic("strings.Split with symbolic or empty separator")
	}
	if x.IsConst() {
		var elems []Value
		for _, p := range strings.Split(x.S, sep.S) {
			elems = append(elems, smt.StrC(p))
		}
		return []Alt{effRet(func(st *State) Value { return newSlice(in, st, elems) })}
	}
	K := in.Cfg.SplitMax
	key := fmt.Sprintf("split:%d:%s", x.ID(), sep.S)
	if v, ok := st.Ghost["memo:"+key]; ok {
		elems := v.([]Value)
		return []Alt{effRet(func(st *State) Value { return newSlice(in, st, elems) })}
	}
	var alts []Alt
	for n := 1; n <= K; n++ {
		n := n
		var cond *smt.Term
		if len(sep.S) == 1 {
			nosep := smt.ReStar(complementChar(sep.S[0]))
			var ps []*smt.Term
			for i := 0; i < n-1; i++ {
				ps = append(ps, nosep, smt.ReLit(sep.S))
			}
			ps = append(ps, nosep)
			cond = smt.InRe(x, smt.ReConcat(ps...))
		} else {
			idx := smt.IntC(0)
			var cs []*smt.Term
			for i := 0; i < n-1; i++ {
				j := smt.IndexOf(x, sep, idx)
				cs = append(cs, smt.Le(smt.IntC(0), j))
				idx = smt.Add(j, smt.IntC(int64(len(sep.S))))
			}
			cs = append(cs, smt.Lt(smt.IndexOf(x, sep, idx), smt.IntC(0)))
			cond = smt.And(cs...)
		}
		a := effRet(func(st *State) Value {
			var parts []*smt.Term
			var elems []Value
			var cat []*smt.Term
			for i := 0; i < n; i++ {
				p := st.fresh(fmt.Sprintf("sp%d", i), smt.String)
				parts = append(parts, p)
				elems = append(elems, p)
				if i > 0 {
					cat = append(cat, sep)
				}
				cat = append(cat, p)
			}
			eq := smt.Eq(x, smt.Concat(cat...))
			st.assume(eq)
			if len(sep.S) == 1 {
				nosep := smt.ReStar(complementChar(sep.S[0]))
				d := &Decomposition{Eq: eq, X: x, Parts: parts, Own: map[*smt.Term]bool{}}
				for _, p := range parts {
					c := smt.Not(smt.Contains(p, sep))
					st.assume(c)
					d.Own[c] = true
					d.Base = append(d.Base, nosep)
				}
				np := len(parts)
				sepS := sep.S
				d.Build = func(pl []*smt.Term) *smt.Term {
					var rp []*smt.Term
					for i := 0; i < np; i++ {
						if i > 0 {
							rp = append(rp, smt.ReLit(sepS))
						}
						rp = append(rp, pl[i])
					}
					return smt.ReConcat(rp...)
				}
				registerDecomp(d)
			} else {
				// leftmost, non-overlapping: sep does not occur in p_i·sep except at the end
				for i, p := range parts {
					if i < n-1 {
						st.assume(smt.Eq(smt.IndexOf(smt.Concat(p, sep), sep, smt.IntC(0)), smt.StrLen(p)))
					} else {
						st.assume(smt.Not(smt.Contains(p, sep)))
					}
				}
			}
			st.Ghost["memo:"+key] = elems
			st.Trace = append(st.Trace, fmt.Sprintf("split(%s)=%d parts", sep.S, n))
			return newSlice(in, st, elems)
		})
		a.Cond = cond
		alts = append(alts, a)
	}
	// more than K parts: outside the bound, recorded
	over := Alt{Stop: Cut, Why: fmt.Sprintf("strings.Split yields more than %d parts", K), Eff: func(st *State) {
		st.Assumed = append(st.Assumed, fmt.Sprintf("split>%d", K))
	}}
	if len(sep.S) == 1 {
		nosep := smt.ReStar(complementChar(sep.S[0]))
		var ps []*smt.Term
		for i := 0; i < K; i++ {
			ps = append(ps, nosep, smt.ReLit(sep.S))
		}
		ps = append(ps, smt.SigmaStar)
		over.Cond = smt.InRe(x, smt.ReConcat(ps...))
	} else {
		// count occurrences >= K via nested indexof
		idx := smt.IntC(0)
		var cs []*smt.Term
		for i := 0; i < K; i++ {
			j := smt.IndexOf(x, sep, idx)
			cs = append(cs, smt.Le(smt.IntC(0), j))
			idx = smt.Add(j, smt.IntC(int64(len(sep.S))))
		}
		over.Cond = smt.And(cs...)
	}
	alts = append(alts, over)
	return alts
}

func complementChar(c byte) *smt.Term {
	var rs []*smt.Term
	if c > 0 {
		rs = append(rs, smt.ReRange(0, c-1))
	}
	if c < 0x7f {
		rs = append(rs, smt.ReRange(c+1, 0x7f))
	}
	return smt.ReUnion(rs...)
}

var (
	fieldVarMu sync.Mutex
	fieldVars  = map[*smt.Term]bool{}
)

func markFieldVar(t *smt.Term) {
	fieldVarMu.Lock()
	fieldVars[t] = true
	fieldVarMu.Unlock()
}

// isFieldVar: a variable constrained to be a non-empty white-space free
// string by the Fields model, or such a constant.
func isFieldVar(t *smt.Term) bool {
	if t.IsConst() {
		return t.S != "" && len(strings.Fields(t.S)) == 1 && strings.Fields(t.S)[0] == t.S
	}
	fieldVarMu.Lock()
	defer fieldVarMu.Unlock()
	return fieldVars[t]
}

func fieldsModel(in *Interp, st *State, x *smt.Term) []Alt {
	if x.IsConst() {
		var elems []Value
		for _, p := range strings.Fields(x.S) {
			elems = append(elems, smt.StrC(p))
		}
		return []Alt{effRet(func(st *State) Value {
			if len(elems) == 0 {
				return SliceV{Arr: in.alloc(st, &ArrayV{})}
			}
			return newSlice(in, st, elems)
		})}
	}
	// Fields of a term that is syntactically a single-space Join of fields
	// (variables introduced as parts by this model, or white-space free
	// constants) is that list of fields.
	if x.Op == "str.++" {
		var parts []Value
		ok := true
		for i, a := range x.Args {
			if i%2 == 0 {
				if isFieldVar(a) {
					parts = append(parts, a)
				} else {
					ok = false
					break
				}
			} else if !(a.IsConst() && a.S == " ") {
				ok = false
				break
			}
		}
		if ok && len(x.Args)%2 == 1 {
			return []Alt{effRet(func(st *State) Value { return newSlice(in, st, parts) })}
		}
	}
	if isFieldVar(x) {
		return []Alt{effRet(func(st *State) Value { return newSlice(in, st, []Value{x}) })}
	}
	K := in.Cfg.SplitMax
	// Fields(a·c) with c a constant that starts with white space is
	// Fields(a) ++ Fields(c) (exact); reuse a's decomposition on this path.
	if x.Op == "str.++" {
		last := x.Args[len(x.Args)-1]
		if last.IsConst() && len(last.S) > 0 && strings.ContainsRune(" \t\n\v\f\r", rune(last.S[0])) {
			base := smt.Concat(x.Args[:len(x.Args)-1]...)
			if prev, ok := st.Ghost["fields:"+fmt.Sprint(base.ID())].([]Value); ok {
				elems := append([]Value(nil), prev...)
				for _, p := range strings.Fields(last.S) {
					elems = append(elems, smt.StrC(p))
				}
				return []Alt{effRet(func(st *State) Value {
					st.Ghost["fields:"+fmt.Sprint(x.ID())] = elems
					return newSlice(in, st, elems)
				})}
			}
		}
	}
	if prev, ok := st.Ghost["fields:"+fmt.Sprint(x.ID())].([]Value); ok {
		return []Alt{effRet(func(st *State) Value {
			if len(prev) == 0 {
				return SliceV{Arr: in.alloc(st, &ArrayV{})}
			}
			return newSlice(in, st, prev)
		})}
	}
	var alts []Alt
	for n := 0; n <= K; n++ {
		n := n
		var rp []*smt.Term
		rp = append(rp, reWSStar)
		for i := 0; i < n; i++ {
			rp = append(rp, reNonWSPlus)
			if i < n-1 {
				rp = append(rp, reWSPlus)
			} else {
				rp = append(rp, reWSStar)
			}
		}
		a := effRet(func(st *State) Value {
			var elems []Value
			var cat []*smt.Term
			w0 := st.fresh("fw", smt.String)
			st.assume(smt.InRe(w0, reWSStar))
			cat = append(cat, w0)
			for i := 0; i < n; i++ {
				p := st.fresh(fmt.Sprintf("fp%d", i), smt.String)
				markFieldVar(p)
				st.assume(smt.InRe(p, reNonWSPlus))
				elems = append(elems, p)
				cat = append(cat, p)
				w := st.fresh("fw", smt.String)
				if i < n-1 {
					st.assume(smt.InRe(w, reWSPlus))
				} else {
					st.assume(smt.InRe(w, reWSStar))
				}
				cat = append(cat, w)
			}
			eq := smt.Eq(x, smt.Concat(cat...))
			st.assume(eq)
			if n > 0 {
				d := &Decomposition{Eq: eq, X: x, Own: map[*smt.Term]bool{}}
				for _, e := range elems {
					d.Parts = append(d.Parts, e.(*smt.Term))
					d.Base = append(d.Base, reNonWSPlus)
					d.Own[smt.InRe(e.(*smt.Term), reNonWSPlus)] = true
				}
				for i := 0; i < len(cat); i += 2 {
					d.Seps = append(d.Seps, cat[i])
					d.Own[smt.InRe(cat[i], reWSStar)] = true
					d.Own[smt.InRe(cat[i], reWSPlus)] = true
				}
				np := len(d.Parts)
				d.Build = func(pl []*smt.Term) *smt.Term {
					rp := []*smt.Term{reWSStar}
					for i := 0; i < np; i++ {
						rp = append(rp, pl[i])
						if i < np-1 {
							rp = append(rp, reWSPlus)
						} else {
							rp = append(rp, reWSStar)
						}
					}
					return smt.ReConcat(rp...)
				}
				registerDecomp(d)
			}
			st.Trace = append(st.Trace, fmt.Sprintf("fields=%d", n))
			st.Ghost["fields:"+fmt.Sprint(x.ID())] = elems
			if n == 0 {
				return SliceV{Arr: in.alloc(st, &ArrayV{})}
			}
			return newSlice(in, st, elems)
		})
		a.Cond = smt.InRe(x, smt.ReConcat(rp...))
		alts = append(alts, a)
	}
	var ps []*smt.Term
	ps = append(ps, reWSStar)
	for i := 0; i < K; i++ {
		ps = append(ps, reNonWSPlus, reWSPlus)
	}
	ps = append(ps, reNonWSChar, smt.SigmaStar)
	alts = append(alts, Alt{Cond: smt.InRe(x, smt.ReConcat(ps...)), Stop: Cut, Why: fmt.Sprintf("strings.Fields yields more than %d tokens", K), Eff: func(st *State) {
		st.Assumed = append(st.Assumed, fmt.Sprintf("fields>%d", K))
	}})
	return alts
}

// ReaderContent returns the content of a strings.Reader / bytes.Reader object.
func (in *Interp) ReaderContent(st *State, p Ptr) *smt.Term {
	r, ok := in.load(st, p).(*ReaderObj)
	if !ok {
		panic("not a reader object")
	}
	return r.S
}

// BufferAppend appends to a bytes.Buffer object.
func (in *Interp) BufferAppend(st *State, p Ptr, s *smt.Term) {
	b, ok := in.load(st, p).(*BufObj)
	if !ok {
		panic("not a bytes.Buffer")
	}
	in.store(st, p, &BufObj{S: smt.Concat(b.S, s)})
}

// OpaqueError returns a fresh non-nil error value.
func (in *Interp) OpaqueError(kind string) Value {
	in.mu.Lock()
	in.nextObj++
	id := in.nextObj
	in.mu.Unlock()
	return IfaceV{T: errType(kind), V: &OpaqueV{Kind: "err", ID: id}}
}

// trimTermPure is TrimSpace as an uninterpreted function (used only inside
// axioms, where no path state is available).
func trimTermPure(x *smt.Term) *smt.Term {
	if x.IsConst() {
		return smt.StrC(strings.TrimSpace(x.S))
	}
	return smt.UF("trimspace", smt.String, x)
}

// EscapeDef is html.EscapeString as a chain of replace_all (the ampersand
// first, so that inserted entities are not escaped again).
func EscapeDef(d *smt.Term) *smt.Term {
	t := d
	for _, pr := range [][2]string{{"&", "&amp;"}, {"'", "&#39;"}, {"<", "&lt;"}, {">", "&gt;"}, {"\"", "&#34;"}, {"\r", "&#13;"}} {
		t = smt.ReplaceAll(t, smt.StrC(pr[0]), smt.StrC(pr[1]))
	}
	return t
}
