package sym

import (
	"fmt"
	"go/types"
	"strings"

	"bmsym/smt"

	"golang.org/x/tools/go/ssa"
)

func (in *Interp) call(st *State, fr *Frame, instr ssa.Value, cc *ssa.CallCommon) []Alt {
	args := make([]Value, 0, len(cc.Args)+1)
	var fn *ssa.Function
	var free []Value
	if cc.IsInvoke() {
		recv := in.get(fr, cc.Value).(IfaceV)
		if recv.T == nil {
			in.safety(st, smt.False, "nil-interface-method-call")
			return nil
		}
		// opaque error values
		if ov, ok := recv.V.(*OpaqueV); ok && ov.Kind == "err" && cc.Method.Name() == "Error" {
			return one(smt.StrC(fmt.Sprintf("opaque error %d", ov.ID)))
		}
		ms := in.Prog.MethodSets.MethodSet(recv.T)
		sel := ms.Lookup(cc.Method.Pkg(), cc.Method.Name())
		if sel == nil {
			panic(fmt.Sprintf("method %s not found on %s", cc.Method.Name(), recv.T))
		}
		fn = in.Prog.MethodValue(sel)
		args = append(args, recv.V)
	} else {
		switch v := cc.Value.(type) {
		case *ssa.Builtin:
			for _, a := range cc.Args {
				args = append(args, in.get(fr, a))
			}
			return in.builtin(st, fr, instr, v.Name(), args, cc)
		case *ssa.Function:
			fn = v
		default:
			fv := in.get(fr, cc.Value).(*FuncV)
			if fv == nil {
				in.safety(st, smt.False, "nil-func-call")
				return nil
			}
			if fv.Special != "" {
				for _, a := range cc.Args {
					args = append(args, in.get(fr, a))
				}
				return in.callSpecial(st, fv, args)
			}
			fn = fv.Fn
			free = fv.Free
		}
	}
	for _, a := range cc.Args {
		args = append(args, in.get(fr, a))
	}
	return in.callFn(st, fr, instr, cc, fn, args, free)
}

func (in *Interp) callFn(st *State, fr *Frame, instr ssa.Value, cc *ssa.CallCommon, fn *ssa.Function, args, free []Value) []Alt {
	name := fn.String()
	st.Calls[name]++
	if in.Cfg.OnCall != nil {
		in.Cfg.OnCall(in, st, name, args)
	}
	// harness intrinsics
	if fn.Pkg != nil && in.Analysed[fn.Pkg] {
		if strings.HasPrefix(fn.Name(), "nondet") || strings.HasPrefix(fn.Name(), "verif") {
			if fn.Blocks == nil || intrinsicNames[fn.Name()] {
				return in.intrinsic(st, fr, fn.Name(), args, cc)
			}
		}
	}
	if sm, ok := in.Cfg.Summaries[name]; ok {
		return one(sm(in, st, args))
	}
	if m, ok := in.Cfg.Intercept[name]; ok {
		return m(in, st, cc, args)
	}
	if stub, ok := in.Cfg.Stubs[name]; ok {
		sf := in.findFunc(stub)
		if sf == nil {
			panic("stub function not found: " + stub)
		}
		nf := in.newFrame(sf, args, nil)
		nf.Call = instr
		return []Alt{{Push: nf}}
	}
	if m, ok := in.Models[name]; ok {
		return m(in, st, cc, args)
	}
	if fn.Blocks != nil && (fn.Pkg != nil && in.Analysed[fn.Pkg] || fn.Pkg == nil && in.analysedSynthetic(fn) || in.Cfg.EnterExtra[name]) {
		nf := in.newFrame(fn, args, free)
		nf.Call = instr
		return []Alt{{Push: nf}}
	}
	if fn.Name() == "init" {
		return one(nil) // dependency package initialisers are not run
	}
	return []Alt{{Stop: Unsupported, Why: "no model for " + name + " called at " + in.where(st)}}
}

// analysedSynthetic reports whether a synthetic function (wrapper, bound
// method, instantiation) belongs to analysed code.
func (in *Interp) analysedSynthetic(fn *ssa.Function) bool {
	if fn.Synthetic == "" {
		// anonymous functions have Pkg set via parent
		if p := fn.Parent(); p != nil {
			return p.Pkg != nil && in.Analysed[p.Pkg] || in.analysedSynthetic(p)
		}
		return false
	}
	// wrappers: decide by receiver type's package
	if fn.Signature.Recv() != nil {
		t := fn.Signature.Recv().Type()
		if p, ok := t.(*types.Pointer); ok {
			t = p.Elem()
		}
		if n, ok := t.(*types.Named); ok && n.Obj().Pkg() != nil {
			_, ok := in.Pkgs[n.Obj().Pkg().Path()]
			return ok
		}
	}
	if fn.Pkg != nil {
		return in.Analysed[fn.Pkg]
	}
	// bound method wrappers: the receiver is the only free variable
	if strings.HasSuffix(fn.Name(), "$bound") && len(fn.FreeVars) == 1 {
		t := fn.FreeVars[0].Type()
		if p, ok := t.(*types.Pointer); ok {
			t = p.Elem()
		}
		if n, ok := t.(*types.Named); ok && n.Obj().Pkg() != nil {
			_, ok := in.Pkgs[n.Obj().Pkg().Path()]
			return ok
		}
	}
	return false
}

func (in *Interp) findFunc(name string) *ssa.Function {
	// "pkgpath.Func" or "pkgpath.(*T).Method" / just a function name in any analysed package
	for _, p := range in.Pkgs {
		if f := p.Func(name); f != nil {
			return f
		}
		if strings.HasPrefix(name, p.Pkg.Path()+".") {
			if f := p.Func(strings.TrimPrefix(name, p.Pkg.Path()+".")); f != nil {
				return f
			}
		}
	}
	for _, p := range in.Pkgs {
		for _, m := range p.Members {
			if t, ok := m.(*ssa.Type); ok {
				for _, typ := range []types.Type{t.Type(), types.NewPointer(t.Type())} {
					ms := in.Prog.MethodSets.MethodSet(typ)
					for i := 0; i < ms.Len(); i++ {
						f := in.Prog.MethodValue(ms.At(i))
						if f != nil && (f.String() == name || f.Name() == name) {
							return f
						}
					}
				}
			}
		}
	}
	return nil
}

// FindFunc finds a function or method by name or full String().
func (in *Interp) FindFunc(name string) *ssa.Function { return in.findFunc(name) }

func (in *Interp) builtin(st *State, fr *Frame, instr ssa.Value, name string, args []Value, cc *ssa.CallCommon) []Alt {
	switch name {
	case "len":
		switch a := args[0].(type) {
		case *smt.Term:
			return one(smt.StrLen(a))
		case SliceV:
			return one(smt.IntC(int64(a.Len)))
		case *SymSliceV:
			return one(a.Len)
		case BytesV:
			return one(smt.StrLen(a.S))
		case MapV:
			return one(smt.IntC(int64(len(in.mapData(st, a).Entries))))
		}
	case "cap":
		switch a := args[0].(type) {
		case SliceV:
			return one(smt.IntC(int64(a.Cap)))
		}
	case "append":
		return in.appendBuiltin(st, args[0], args[1], cc.Args[0].Type())
	case "delete":
		alts := in.mapDeleteAlts(st, args[0].(MapV), args[1])
		return alts
	case "print", "println":
		return one(nil)
	}
	panic(fmt.Sprintf("unsupported builtin %s(%T)", name, args[0]))
}

func (in *Interp) appendBuiltin(st *State, a, b Value, t types.Type) []Alt {
	switch x := a.(type) {
	case BytesV:
		switch y := b.(type) {
		case BytesV:
			return one(BytesV{S: smt.Concat(x.S, y.S)})
		case *smt.Term:
			return one(BytesV{S: smt.Concat(x.S, y)})
		}
	case *SymSliceV:
		y := b.(SliceV)
		res := &SymSliceV{Arr: x.Arr, Len: x.Len}
		if y.Arr != 0 {
			arr := st.Heap[y.Arr].(*ArrayV)
			for i := 0; i < y.Len; i++ {
				res = &SymSliceV{Arr: smt.Store(res.Arr, res.Len, termOf(arr.E[y.Off+i])), Len: smt.Add(res.Len, smt.IntC(1))}
			}
		}
		return one(res)
	case SliceV:
		var add []Value
		switch y := b.(type) {
		case SliceV:
			if y.Arr != 0 {
				arr := st.Heap[y.Arr].(*ArrayV)
				add = append(add, arr.E[y.Off:y.Off+y.Len]...)
			}
		default:
			panic(fmt.Sprintf("append(slice, %T)", b))
		}
		if len(add) == 0 {
			return one(x)
		}
		need := x.Len + len(add)
		if x.Arr != 0 && need <= x.Cap {
			// in place
			id := x.Arr
			off := x.Off + x.Len
			return []Alt{{Ret: SliceV{Arr: x.Arr, Off: x.Off, Len: need, Cap: x.Cap}, Eff: func(st *State) {
				if id < st.SharedBelow {
					st.Effects = append(st.Effects, fmt.Sprintf("in-place append into pre-existing backing array obj%d (%s) at %s", id, in.objName(id), in.where(st)))
				}
				old := st.Heap[id].(*ArrayV)
				na := &ArrayV{E: append([]Value(nil), old.E...)}
				copy(na.E[off:], add)
				st.Heap[id] = na
			}}}
		}
		ncap := need
		if 2*x.Cap > ncap {
			ncap = 2 * x.Cap
		}
		et := t.Underlying().(*types.Slice).Elem()
		na := &ArrayV{E: make([]Value, ncap)}
		if x.Arr != 0 {
			old := st.Heap[x.Arr].(*ArrayV)
			copy(na.E, old.E[x.Off:x.Off+x.Len])
		}
		copy(na.E[x.Len:], add)
		for i := need; i < ncap; i++ {
			na.E[i] = in.zero(et)
		}
		return []Alt{{Ret: retFromEnv{}, Eff: func(st *State) {
			id := in.alloc(st, na)
			fr := st.top()
			fr.Env[fr.Block.Instrs[fr.IP].(ssa.Value)] = SliceV{Arr: id, Off: 0, Len: need, Cap: ncap}
		}}}
	}
	panic(fmt.Sprintf("append on %T", a))
}

// callSpecial applies a harness-created uninterpreted closure.
func (in *Interp) callSpecial(st *State, fv *FuncV, args []Value) []Alt {
	switch fv.Special {
	case "pred":
		st.Calls["special:pred"]++
		return one(smt.UF("pred."+fv.Tag, smt.Bool, termOf(args[0])))
	case "urlpred":
		u := in.load(st, args[0].(Ptr)).(*StructV)
		return one(smt.UF("urlpred."+fv.Tag, smt.Bool, urlFieldTerms(u)...))
	case "rewriter":
		p := args[0].(Ptr)
		if p.Obj == 0 {
			in.safety(st, smt.False, "nil-dereference")
			return nil
		}
		u := in.load(st, p).(*StructV)
		old := urlFieldTerms(u)
		return []Alt{{Eff: func(st *State) {
			nu := &StructV{F: append([]Value(nil), u.F...)}
			for i, fi := range urlStringFields {
				nu.F[fi] = smt.UF(fmt.Sprintf("rewrite.%s.%d", fv.Tag, i), smt.String, old...)
			}
			in.store(st, p, nu)
		}}}
	}
	panic("unknown special closure " + fv.Special)
}

var intrinsicNames = map[string]bool{}

func init() {
	for _, n := range []string{"nondetString", "nondetBool", "nondetInt", "nondetIntRange", "nondetRegexp", "nondetPred", "nondetURLPred",
		"nondetRewriter", "nondetError", "verifAssume", "verifAssert", "verifReach", "verifProvenance", "verifFreeze", "verifNote",
		"verifNoteBool", "verifNoteInt", "verifMatch", "verifHasToken", "verifCut", "verifIsTokStr", "verifLower", "verifURLHost", "verifURLScheme", "verifURLOk", "verifURLNorm",
		"verifEffects", "verifSameObject", "verifWrite", "verifWriteFailed", "verifOr", "verifAnd", "verifImplies", "verifCurrentToken", "verifIte", "verifNot", "verifMatchPrefix", "verifAppended", "verifParam", "verifNoteURL", "verifURLStubCount", "verifURLStubProduced", "verifRU", "verifJoinIf", "verifCallCount", "verifDisjointHeaps", "verifValidURLOk", "verifValidURLOut"} {
		intrinsicNames[n] = true
	}
}

func constStr(v Value) string {
	t := termOf(v)
	if !t.IsConst() {
		panic("intrinsic tag must be a constant string")
	}
	return t.S
}

func (in *Interp) intrinsic(st *State, fr *Frame, name string, args []Value, cc *ssa.CallCommon) []Alt {
	uniq := func(tag string) string {
		k := "nondet#" + tag
		st.Calls[k]++
		if st.Calls[k] == 1 {
			return tag
		}
		return fmt.Sprintf("%s#%d", tag, st.Calls[k])
	}
	switch name {
	case "nondetString":
		v := smt.Var(uniq(constStr(args[0])), smt.String)
		return one(v)
	case "nondetBool":
		return one(smt.Var(uniq(constStr(args[0])), smt.Bool))
	case "nondetInt":
		return one(smt.Var(uniq(constStr(args[0])), smt.Int))
	case "nondetIntRange":
		tag := uniq(constStr(args[0]))
		lo, hi := termOf(args[1]).I, termOf(args[2]).I
		var alts []Alt
		for i := lo; i <= hi; i++ {
			i := i
			alts = append(alts, Alt{Ret: smt.IntC(i), Eff: func(st *State) {
				st.Trace = append(st.Trace, fmt.Sprintf("%s=%d", tag, i))
				st.Ghost["choice:"+tag] = smt.IntC(i)
			}})
		}
		return alts
	case "nondetRegexp":
		tag := uniq(constStr(args[0]))
		return []Alt{{Ret: retFromEnv{}, Eff: func(st *State) {
			id := in.alloc(st, &RegexObj{Opaque: tag})
			f := st.top()
			f.Env[f.Block.Instrs[f.IP].(ssa.Value)] = Ptr{Obj: id}
		}}}
	case "nondetPred":
		return one(&FuncV{Special: "pred", Tag: uniq(constStr(args[0]))})
	case "nondetURLPred":
		return one(&FuncV{Special: "urlpred", Tag: uniq(constStr(args[0]))})
	case "nondetRewriter":
		return one(&FuncV{Special: "rewriter", Tag: uniq(constStr(args[0]))})
	case "nondetError":
		in.mu.Lock()
		in.nextObj++
		id := in.nextObj
		in.mu.Unlock()
		return one(IfaceV{T: errType("nondet"), V: &OpaqueV{Kind: "err", ID: id}})
	case "verifAssume":
		c := termOf(args[0])
		if c.IsFalse() {
			return []Alt{{Stop: Cut, Why: "assumption false"}}
		}
		return []Alt{{Cond: c}}
	case "verifCut":
		why := constStr(args[0])
		st.Assumed = append(st.Assumed, why)
		return []Alt{{Stop: Cut, Why: why}}
	case "verifAssert":
		c := termOf(args[0])
		id := constStr(args[1])
		st.Calls["assert:"+id]++
		if c.IsTrue() {
			return one(nil)
		}
		ob := &Obligation{ID: id, Kind: "assert", PC: append([]*smt.Term(nil), st.PC...), Cond: c, Where: in.where(st), PathID: st.ID, Ghost: copyGhost(st)}
		in.AddObligation(ob)
		if c.IsFalse() {
			return []Alt{{Stop: Cut, Why: "assertion " + id + " definitely fails"}}
		}
		return []Alt{{Cond: c}}
	case "verifReach":
		id := constStr(args[0])
		ob := &Obligation{ID: id, Kind: "reach", PC: append([]*smt.Term(nil), st.PC...), Cond: smt.True, Where: in.where(st), PathID: st.ID, Ghost: copyGhost(st)}
		in.AddObligation(ob)
		return one(nil)
	case "verifFreeze":
		in.mu.Lock()
		st.SharedBelow = in.nextObj + 1
		in.mu.Unlock()
		return one(nil)
	case "verifEffects":
		return one(smt.IntC(int64(len(st.Effects))))
	case "verifNote":
		st.Ghost["note:"+constStr(args[0])] = args[1]
		return one(nil)
	case "verifNoteBool", "verifNoteInt":
		st.Ghost["note:"+constStr(args[0])] = args[1]
		return one(nil)
	case "verifMatch":
		k := smt.Translate(constStr(args[0]))
		if k.Unsupported != "" {
			panic("verifMatch: unsupported pattern: " + k.Unsupported)
		}
		return one(k.Match(termOf(args[1])))
	case "verifHasToken":
		return one(HasToken(termOf(args[0]), constStr(args[1])))
	case "verifLower":
		return one(Lower(termOf(args[0])))
	case "verifURLOk":
		return one(urlOK(termOf(args[0])))
	case "verifURLScheme":
		return one(urlField("scheme", termOf(args[0])))
	case "verifURLHost":
		return one(urlField("host", termOf(args[0])))
	case "verifURLNorm":
		return one(urlNorm(termOf(args[0])))
	case "verifProvenance", "verifIsTokStr":
		s := termOf(args[0])
		tokT := cc.Signature().Results().At(0).Type()
		if s.Op == "uf" && strings.HasPrefix(s.Name, "tokstr.") {
			parts := strings.Split(s.Name, ".")
			kind := parts[1]
			tok := in.zero(tokT).(*StructV)
			nt := &StructV{F: append([]Value(nil), tok.F...)}
			nt.F[0] = smt.IntC(int64(tokenKindCode[kind]))
			nt.F[2] = s.Args[0]
			var attrs []Value
			for i := 1; i+1 < len(s.Args); i += 2 {
				attrs = append(attrs, &StructV{F: []Value{smt.StrC(""), s.Args[i], s.Args[i+1]}})
			}
			if len(attrs) > 0 {
				return []Alt{{Ret: retFromEnv{}, Eff: func(st *State) {
					id := in.alloc(st, &ArrayV{E: attrs})
					nt2 := &StructV{F: append([]Value(nil), nt.F...)}
					nt2.F[3] = SliceV{Arr: id, Len: len(attrs), Cap: len(attrs)}
					f := st.top()
					f.Env[f.Block.Instrs[f.IP].(ssa.Value)] = TupleV{nt2, smt.True}
				}}}
			}
			return one(TupleV{nt, smt.True})
		}
		return one(TupleV{in.zero(tokT), smt.False})
	case "verifWrite", "verifWriteFailed":
		s := termOf(args[0])
		failed := name == "verifWriteFailed"
		return []Alt{{Eff: func(st *State) { st.Writes = append(st.Writes, Write{S: s, Kind: "WriteString", Failed: failed}) }}}
	case "verifParam":
		v, ok := in.Cfg.Params[constStr(args[0])]
		if !ok {
			panic("harness parameter not set: " + constStr(args[0]))
		}
		return one(smt.IntC(int64(v)))
	case "verifNoteURL":
		raw, out, okT := termOf(args[0]), termOf(args[1]), termOf(args[2])
		return []Alt{{Eff: func(st *State) {
			l, _ := st.Ghost["urlstubs"].([][3]*smt.Term)
			st.Ghost["urlstubs"] = append(append([][3]*smt.Term(nil), l...), [3]*smt.Term{raw, out, okT})
		}}}
	case "verifURLStubCount":
		l, _ := st.Ghost["urlstubs"].([][3]*smt.Term)
		return one(smt.IntC(int64(len(l))))
	case "verifURLStubProduced":
		// v is the output of some accepted validURL call on this path
		v := termOf(args[0])
		l, _ := st.Ghost["urlstubs"].([][3]*smt.Term)
		var ds []*smt.Term
		for _, u := range l {
			ds = append(ds, smt.And(u[2], smt.Eq(v, u[1])))
		}
		return one(smt.Or(ds...))
	case "verifRU":
		x := termOf(args[0])
		return one(smt.UF("ru", smt.String, x))
	case "verifJoinIf":
		// acc, if c then (acc == "" ? piece : acc + sep + piece) else acc
		acc, c, piece, sep := termOf(args[0]), termOf(args[1]), termOf(args[2]), termOf(args[3])
		joined := smt.Ite(smt.Eq(acc, smt.StrC("")), piece, smt.Concat(acc, sep, piece))
		return one(smt.Ite(c, joined, acc))
	case "verifCallCount":
		n := 0
		suffix := constStr(args[0])
		for k, v := range st.Calls {
			if strings.HasSuffix(k, "."+suffix) || strings.HasSuffix(k, ")."+suffix) {
				n += v
			}
		}
		return one(smt.IntC(int64(n)))
	case "verifDisjointHeaps":
		ra, rb := map[int]bool{}, map[int]bool{}
		in.reachable(st, args[0], ra)
		in.reachable(st, args[1], rb)
		shared := ""
		for id := range ra {
			if rb[id] {
				shared = fmt.Sprintf("obj%d (%s)", id, in.objName(id))
			}
		}
		if shared != "" {
			st.Trace = append(st.Trace, "shared object: "+shared)
		}
		return one(smt.BoolC(shared == ""))
	case "verifValidURLOut":
		return one(smt.UF("vurl.out", smt.String, termOf(args[0])))
	case "verifValidURLOk":
		return one(smt.UF("vurl.ok", smt.Bool, termOf(args[0])))
	case "verifNot":
		return one(smt.Not(termOf(args[0])))
	case "verifMatchPrefix":
		return one(smt.PrefixOf(termOf(args[1]), termOf(args[0])))
	case "verifAppended":
		// s = prefix + rest and rest contains piece
		s, pre, piece := termOf(args[0]), termOf(args[1]), termOf(args[2])
		rest := smt.Substr(s, smt.StrLen(pre), smt.Sub(smt.StrLen(s), smt.StrLen(pre)))
		return one(smt.And(smt.PrefixOf(pre, s), smt.Contains(rest, piece)))
	case "verifOr":
		return one(smt.Or(termOf(args[0]), termOf(args[1])))
	case "verifAnd":
		return one(smt.And(termOf(args[0]), termOf(args[1])))
	case "verifImplies":
		return one(smt.Implies(termOf(args[0]), termOf(args[1])))
	case "verifCurrentToken":
		tokT := cc.Signature().Results().At(0).Type()
		z := in.zero(tokT).(*StructV)
		t := &StructV{F: append([]Value(nil), z.F...)}
		if len(st.Tokens) == 0 {
			return one(t)
		}
		ti := st.Tokens[len(st.Tokens)-1]
		t.F[0] = smt.IntC(int64(tokenKindCode[ti.Kind]))
		if ti.Data != nil {
			t.F[2] = ti.Data
		}
		if len(ti.Keys) > 0 {
			var attrs []Value
			for i := range ti.Keys {
				attrs = append(attrs, &StructV{F: []Value{smt.StrC(""), ti.Keys[i], ti.Vals[i]}})
			}
			return []Alt{effRet(func(st *State) Value {
				t2 := &StructV{F: append([]Value(nil), t.F...)}
				t2.F[3] = newSlice(in, st, attrs)
				return t2
			})}
		}
		return one(t)
	case "verifSameObject":
		return one(smt.BoolC(sameObject(args[0], args[1])))
	}
	panic("unknown intrinsic " + name)
}

func sameObject(a, b Value) bool {
	switch x := a.(type) {
	case IfaceV:
		if y, ok := b.(IfaceV); ok {
			return sameObject(x.V, y.V)
		}
	case MapV:
		if y, ok := b.(MapV); ok {
			return x.Obj != 0 && x.Obj == y.Obj
		}
	case SliceV:
		if y, ok := b.(SliceV); ok {
			return x.Arr != 0 && x.Arr == y.Arr
		}
	case Ptr:
		if y, ok := b.(Ptr); ok {
			return x.Obj != 0 && x.Obj == y.Obj
		}
	}
	return false
}

func copyGhost(st *State) map[string]Value {
	g := make(map[string]Value, len(st.Ghost)+2)
	for k, v := range st.Ghost {
		g[k] = v
	}
	g["tokens"] = append([]*TokenInfo(nil), st.Tokens...)
	g["writes"] = append([]Write(nil), st.Writes...)
	g["trace"] = append([]string(nil), st.Trace...)
	g["effects"] = append([]string(nil), st.Effects...)
	return g
}

// reachable collects the mutable heap objects reachable from v (regexp
// objects are immutable and may be shared).
func (in *Interp) reachable(st *State, v Value, seen map[int]bool) {
	visitObj := func(id int) {
		if id <= 0 || seen[id] {
			return
		}
		cell := st.Heap[id]
		if _, isRe := cell.(*RegexObj); isRe {
			return
		}
		seen[id] = true
		in.reachable(st, cell, seen)
	}
	switch x := v.(type) {
	case Ptr:
		visitObj(x.Obj)
	case MapV:
		visitObj(x.Obj)
	case SliceV:
		visitObj(x.Arr)
	case IfaceV:
		in.reachable(st, x.V, seen)
	case *StructV:
		for _, f := range x.F {
			in.reachable(st, f, seen)
		}
	case *ArrayV:
		for _, e := range x.E {
			in.reachable(st, e, seen)
		}
	case *MapData:
		for _, e := range x.Entries {
			in.reachable(st, e.K, seen)
			in.reachable(st, e.V, seen)
		}
	case *FuncV:
		if x != nil {
			for _, f := range x.Free {
				in.reachable(st, f, seen)
			}
		}
	case TupleV:
		for _, e := range x {
			in.reachable(st, e, seen)
		}
	}
}
