// Package load loads /repo's packages with the harness files overlaid and
// builds SSA.
package load

import (
	"fmt"
	"os"
	"path/filepath"
	"strings"

	"golang.org/x/tools/go/packages"
	"golang.org/x/tools/go/ssa"
	"golang.org/x/tools/go/ssa/ssautil"
)

type Loaded struct {
	Prog    *ssa.Program
	Pkgs    []*ssa.Package // analysed packages (bluemonday, css)
	All     []*packages.Package
	Overlay map[string][]byte
	Repo    string
}

// Env for go list / go test invocations.
func Env() []string {
	env := os.Environ()
	env = append(env, "GOFLAGS=-mod=mod", "GOPROXY=off", "GOSUMDB=off", "GOTOOLCHAIN=local", "CGO_ENABLED=0")
	return env
}

// HarnessOverlay maps /verif/harness/<pkgdir>/*.go to <repo>/<pkgdir>/zz_verif_*.go
// where pkgdir "root" is the module root.
func HarnessOverlay(repo, harnessDir string) (map[string][]byte, error) {
	ov := map[string][]byte{}
	dirs, err := os.ReadDir(harnessDir)
	if err != nil {
		return nil, err
	}
	for _, d := range dirs {
		if !d.IsDir() {
			continue
		}
		target := repo
		if d.Name() != "root" {
			target = filepath.Join(repo, d.Name())
		}
		files, _ := filepath.Glob(filepath.Join(harnessDir, d.Name(), "*.go"))
		for _, f := range files {
			b, err := os.ReadFile(f)
			if err != nil {
				return nil, err
			}
			ov[filepath.Join(target, "zz_verif_"+filepath.Base(f))] = b
		}
	}
	return ov, nil
}

func Load(repo, harnessDir string, patterns ...string) (*Loaded, error) {
	ov, err := HarnessOverlay(repo, harnessDir)
	if err != nil {
		return nil, err
	}
	if len(patterns) == 0 {
		patterns = []string{".", "./css"}
	}
	cfg := &packages.Config{
		Mode:       packages.LoadAllSyntax,
		Dir:        repo,
		Env:        Env(),
		Overlay:    ov,
		BuildFlags: []string{"-tags=verif"},
	}
	pkgs, err := packages.Load(cfg, patterns...)
	if err != nil {
		return nil, err
	}
	var errs []string
	packages.Visit(pkgs, nil, func(p *packages.Package) {
		for _, e := range p.Errors {
			errs = append(errs, e.Error())
		}
	})
	if len(errs) > 0 {
		return nil, fmt.Errorf("load errors:\n%s", strings.Join(errs, "\n"))
	}
	prog, spkgs := ssautil.AllPackages(pkgs, ssa.InstantiateGenerics)
	prog.Build()
	l := &Loaded{Prog: prog, All: pkgs, Overlay: ov, Repo: repo}
	for _, p := range spkgs {
		if p != nil {
			l.Pkgs = append(l.Pkgs, p)
		}
	}
	return l, nil
}
