package main

import (
	"flag"
	"fmt"
	"os"
	"os/signal"
	"runtime/pprof"
	"sort"
	"strings"
	"syscall"
	"time"

	"bmsym/checks"
	"bmsym/smt"
	"bmsym/sym"
)

func heapProf() {
	f := os.Getenv("BMSYM_HEAPPROF")
	if f == "" {
		return
	}
	go func() {
		for i := 0; ; i++ {
			time.Sleep(20 * time.Second)
			w, err := os.Create(fmt.Sprintf("%s.%d", f, i))
			if err == nil {
				pprof.WriteHeapProfile(w)
				w.Close()
			}
		}
	}()
}

func main() {
	heapProf()
	sigc := make(chan os.Signal, 1)
	signal.Notify(sigc, syscall.SIGTERM, syscall.SIGINT, syscall.SIGHUP)
	go func() {
		<-sigc
		smt.KillAll()
		os.Exit(2)
	}()
	if len(os.Args) < 2 {
		fmt.Fprintln(os.Stderr, "usage: bmsym <run|check> ...")
		os.Exit(2)
	}
	switch os.Args[1] {
	case "run":
		fs := flag.NewFlagSet("run", flag.ExitOnError)
		repo := fs.String("repo", "/repo", "")
		harness := fs.String("harness", "/verif/harness", "")
		name := fs.String("fn", "", "harness function")
		attrs := fs.Int("attrs", 1, "")
		stubs := fs.String("stubs", "", "fn=stub,...")
		fs.Parse(os.Args[2:])
		stubMap := map[string]string{}
		for _, kv := range strings.Split(*stubs, ",") {
			if i := strings.Index(kv, "="); i > 0 {
				stubMap["(*github.com/microcosm-cc/bluemonday.Policy)."+kv[:i]] = kv[i+1:]
			}
		}
		c := &checks.Ctx{Repo: *repo, Harness: *harness, Tier: "quick", Start: time.Now()}
		if err := c.Load(); err != nil {
			fmt.Fprintln(os.Stderr, err)
			os.Exit(2)
		}
		in, err := c.NewInterp(sym.Config{MaxAttrs: *attrs, Stubs: stubMap})
		if err != nil {
			fmt.Fprintln(os.Stderr, err)
			os.Exit(2)
		}
		defer in.Close()
		fmt.Printf("loaded+init in %.2fs\n", time.Since(c.Start).Seconds())
		rr, err := c.Explore(in, *name, 10*time.Second, nil)
		if err != nil {
			fmt.Fprintln(os.Stderr, err)
			os.Exit(2)
		}
		fmt.Printf("%d paths in %.2fs:", len(rr.States), rr.Seconds)
		for k, v := range rr.ByStatus {
			fmt.Printf(" %s=%d", checks.StatusName(k), v)
		}
		fmt.Println()
		for _, s := range rr.States {
			if s.Status != sym.Finished {
				fmt.Printf("  path %d: %s %s\n", s.ID, checks.StatusName(s.Status), s.Reason)
			}
		}
		for _, o := range rr.Obs {
			fmt.Printf("  %s %s @%s: %s (%s %.2fs) %v\n", o.Ob.Kind, o.Ob.ID, o.Ob.Where, o.Res.Status, o.Res.Solver, o.Res.Seconds, o.Res.Note)
			if o.Res.Status == smt.Sat {
				var ks []string
				for k := range o.Values {
					ks = append(ks, k)
				}
				sort.Strings(ks)
				for _, k := range ks {
					v := o.Values[k]
					fmt.Printf("      %s = %q %d %v\n", k, v.S, v.I, v.B)
				}
			}
		}
		fmt.Printf("stats: %+v\n", in.Stats)
	case "steps":
		c := &checks.Ctx{Repo: "/repo", Harness: "/verif/harness", VerifDir: "/verif", Tier: "quick", Start: time.Now()}
		if err := c.Load(); err != nil {
			fmt.Fprintln(os.Stderr, err)
			os.Exit(2)
		}
		if err := checks.DebugSteps(c, os.Args[2], 1); err != nil {
			fmt.Fprintln(os.Stderr, err)
			os.Exit(2)
		}
	default:
		os.Exit(checks.Main(os.Args[1:]))
	}
}
