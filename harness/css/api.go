//go:build verif

package css

// Harness API. These functions are intercepted by name by the symbolic
// engine (/verif/engine/sym/call.go); they are never executed natively.

import (
	"regexp"

)

func nondetString(tag string) string                           { panic("symbolic only") }
func nondetBool(tag string) bool                               { panic("symbolic only") }
func nondetInt(tag string) int                                 { panic("symbolic only") }
func nondetIntRange(tag string, lo, hi int) int                { panic("symbolic only") }
func nondetRegexp(tag string) *regexp.Regexp                   { panic("symbolic only") }
func nondetPred(tag string) func(string) bool                  { panic("symbolic only") }
func nondetError(tag string) error                             { panic("symbolic only") }
func verifAssume(c bool)                                       { panic("symbolic only") }
func verifAssert(c bool, id string)                            { panic("symbolic only") }
func verifReach(id string)                                     { panic("symbolic only") }
func verifCut(why string)                                      { panic("symbolic only") }
func verifFreeze()                                             { panic("symbolic only") }
func verifEffects() int                                        { panic("symbolic only") }
func verifNote(key string, v string)                           { panic("symbolic only") }
func verifNoteBool(key string, v bool)                         { panic("symbolic only") }
func verifNoteInt(key string, v int)                           { panic("symbolic only") }
func verifMatch(pattern string, s string) bool                 { panic("symbolic only") }
func verifHasToken(v string, tok string) bool                  { panic("symbolic only") }
func verifLower(s string) string                               { panic("symbolic only") }
func verifURLOk(raw string) bool                               { panic("symbolic only") }
func verifURLScheme(raw string) string                         { panic("symbolic only") }
func verifURLHost(raw string) string                           { panic("symbolic only") }
func verifURLNorm(raw string) string                           { panic("symbolic only") }
func verifWrite(s string)                                      { panic("symbolic only") }
func verifWriteFailed(s string)                                { panic("symbolic only") }
func verifOr(a, b bool) bool                                   { panic("symbolic only") }
func verifAnd(a, b bool) bool                                  { panic("symbolic only") }
func verifImplies(a, b bool) bool                              { panic("symbolic only") }
func verifNot(a bool) bool                                     { panic("symbolic only") }
func verifMatchPrefix(s, prefix string) bool                   { panic("symbolic only") }
func verifAppended(s, prefix, piece string) bool               { panic("symbolic only") }
func verifParam(tag string) int                                { panic("symbolic only") }
func verifNoteURL(raw, out string, ok bool)                    { panic("symbolic only") }
func verifURLStubCount() int                                   { panic("symbolic only") }
func verifURLStubProduced(v string) bool                       { panic("symbolic only") }
func verifRU(s string) string                                  { panic("symbolic only") }
func verifJoinIf(acc string, c bool, piece, sep string) string { panic("symbolic only") }
func verifCallCount(fn string) int                             { panic("symbolic only") }
func verifDisjointHeaps(a, b interface{}) bool                 { panic("symbolic only") }
func verifValidURLOk(raw string) bool                          { panic("symbolic only") }
func verifValidURLOut(raw string) string                       { panic("symbolic only") }
func verifSameObject(a, b interface{}) bool                    { panic("symbolic only") }
