//go:build verif

package bluemonday

import (
	"strings"

	"golang.org/x/net/html"
)

// ---- C04: shipped policies ------------------------------------------------------
//
// ugcVocabulary is written from the documentation of UGCPolicy (policies.go
// comments, README): element -> attributes allowed on it beyond the global
// ones (dir, lang, id, title).

var ugcGlobalAttrs = []string{"dir", "lang", "id", "title"}

var ugcVocabulary = map[string][]string{
	"article": nil, "aside": nil, "figure": nil, "section": nil, "summary": nil,
	"h1": nil, "h2": nil, "h3": nil, "h4": nil, "h5": nil, "h6": nil, "hgroup": nil,
	"br": nil, "div": nil, "hr": nil, "p": nil, "span": nil, "wbr": nil,
	"abbr": nil, "acronym": nil, "cite": nil, "code": nil, "dfn": nil, "em": nil, "figcaption": nil, "mark": nil,
	"s": nil, "samp": nil, "strong": nil, "sub": nil, "sup": nil, "var": nil,
	"b": nil, "i": nil, "pre": nil, "small": nil, "strike": nil, "tt": nil, "u": nil,
	"rp": nil, "rt": nil, "ruby": nil, "dl": nil, "dt": nil, "dd": nil, "caption": nil,
	"details":    {"open"},
	"blockquote": {"cite"},
	"a":          {"href"},
	"map":        {"name"},
	"area":       {"alt", "coords", "href", "rel", "shape"},
	"img":        {"usemap", "align", "alt", "height", "width", "src"},
	"q":          {"cite"},
	"time":       {"datetime"},
	"bdi":        {"dir"},
	"bdo":        {"dir"},
	"del":        {"cite", "datetime"},
	"ins":        {"cite", "datetime"},
	"ol":         {"type"},
	"ul":         {"type"},
	"li":         {"type", "value"},
	"table":      {"height", "width", "summary"},
	"col":        {"align", "height", "width", "span", "valign"},
	"colgroup":   {"align", "height", "width", "span", "valign"},
	"thead":      {"align", "valign"},
	"tr":         {"align", "valign"},
	"td":         {"abbr", "align", "colspan", "rowspan", "headers", "height", "width", "scope", "valign", "nowrap"},
	"th":         {"abbr", "align", "colspan", "rowspan", "headers", "height", "width", "scope", "valign", "nowrap"},
	"tbody":      {"align", "valign"},
	"tfoot":      {"align", "valign"},
	"meter":      {"value", "min", "max", "low", "high", "optimum"},
	"progress":   {"value", "max"},
}

// elements that must never be part of the UGC output
var ugcForbidden = []string{"script", "style", "iframe", "object", "embed", "form", "input", "button", "select", "textarea", "option",
	"base", "meta", "link", "svg", "math", "noscript", "xmp", "plaintext", "title", "template", "frame", "frameset", "applet", "video", "audio", "source", "track", "canvas", "body", "html", "head"}

func sortedVocabulary() []string {
	var names []string
	for k := range ugcVocabulary {
		names = append(names, k)
	}
	// insertion sort (no sort package semantics needed in the engine)
	for i := 1; i < len(names); i++ {
		for j := i; j > 0 && names[j] < names[j-1]; j-- {
			names[j], names[j-1] = names[j-1], names[j]
		}
	}
	return names
}

type c04Writer struct{ strict bool }

func (w *c04Writer) Write(b []byte) (int, error) { return w.WriteString(string(b)) }
func (w *c04Writer) WriteString(s string) (int, error) {
	verifWrite(s)
	tok, ok := verifProvenance(s)
	if !ok {
		verifAssert(false, "C04-raw-write")
		return len(s), nil
	}
	switch tok.Type {
	case html.TextToken:
	case html.StartTagToken, html.EndTagToken, html.SelfClosingTagToken:
		if w.strict {
			verifAssert(false, "C04-strict-emits-no-tag")
		} else {
			_, known := ugcVocabulary[tok.Data]
			verifAssert(known, "C04-ugc-tag-in-vocabulary")
		}
	default:
		verifAssert(false, "C04-comment-or-doctype-emitted")
	}
	return len(s), nil
}

func HarnessC04_ugcLoop() {
	p := UGCPolicy()
	err := p.sanitize(stubReader{}, &c04Writer{})
	verifNoteBool("returned-error", err != nil)
}

func HarnessC04_strictLoop() {
	p := StrictPolicy()
	err := p.sanitize(stubReader{}, &c04Writer{strict: true})
	verifNoteBool("returned-error", err != nil)
}

func inList(l []string, s string) bool {
	r := false
	for _, x := range l {
		r = verifOr(r, x == s)
	}
	return r
}

// HarnessC04_ugcAttrs: the real sanitizeAttrs under the real UGCPolicy on one
// free attribute of each vocabulary element.
func HarnessC04_ugcAttrs() {
	p := UGCPolicy()
	var names []string
	for _, n := range sortedVocabulary() {
		// del/ins cite carries a value pattern and URL validation at once; that
		// combination is left to C02 (pattern) and C03 (URL)
		if n != "del" && n != "ins" {
			names = append(names, n)
		}
	}
	el := names[nondetIntRange("el", 0, len(names)-1)]
	verifNote("el", el)
	key := nondetString("in.key")
	verifAssume(verifMatch(`^[^\s/>=A-Z\x00]+$`, key))
	val := nondetString("in.val")
	// values with embedded white space are rejected (or, for data: URIs,
	// normalised) by validURL; that rule is C03's subject and is assumed away
	// here to keep the instantiation decidable
	tv := strings.TrimSpace(val)
	verifAssume(verifNot(verifOr(verifOr(strings.Contains(tv, " "), strings.Contains(tv, "\t")), strings.Contains(tv, "\n"))))
	in := []html.Attribute{{Key: key, Val: val}}
	noteAttrs("in", in)
	out := p.sanitizeAttrs(el, in, p.elsAndAttrs[el])
	noteAttrs("out", out)
	verifReach("C04-attrs-reach")
	ok := true
	check := func(c bool, id string) {
		verifNoteBool("c:"+id, c)
		ok = verifAnd(ok, c)
	}
	for _, o := range out {
		allowed := verifOr(inList(ugcGlobalAttrs, o.Key), inList(ugcVocabulary[el], o.Key))
		if el == "a" || el == "area" {
			allowed = verifOr(allowed, o.Key == "rel")
		}
		check(allowed, "attribute-in-vocabulary")
		check(o.Key != "style", "no-style-attribute")
		check(verifNot(strings.HasPrefix(o.Key, "on")), "no-event-handler")
		isURL := (o.Key == "href" && (el == "a" || el == "area")) || (o.Key == "cite" && (el == "blockquote" || el == "q" || el == "del" || el == "ins")) || (o.Key == "src" && el == "img")
		if isURL {
			t := strings.TrimSpace(val)
			scheme := verifURLScheme(t)
			schemeOK := verifOr(verifOr(scheme == "http", scheme == "https"), verifOr(scheme == "mailto", scheme == ""))
			noWS := verifNot(verifOr(verifOr(strings.Contains(t, " "), strings.Contains(t, "\t")), strings.Contains(t, "\n")))
			check(verifAnd(verifAnd(noWS, verifURLOk(t)), schemeOK), "url-scheme-http-https-mailto-or-relative")
			check(o.Val == verifURLNorm(t), "url-normalised")
		}
	}
	// links get rel=nofollow
	if el == "a" || el == "area" {
		if _, has := firstAttr(out, "href"); has {
			rel, hasRel := firstAttr(out, "rel")
			check(verifAnd(hasRel, verifHasToken(rel, "nofollow")), "links-get-nofollow")
		}
	}
	// converse: a documented attribute with a canonical value passes (a few representative ones)
	verifAssert(ok, "C04")
}

// HarnessC04_tables: the shipped constructors' switches.
func HarnessC04_tables() {
	u := UGCPolicy()
	verifAssert(u.requireParseableURLs && u.allowRelativeURLs && u.requireNoFollow, "C04-ugc-url-switches")
	verifAssert(!u.allowUnsafe && !u.allowComments && !u.allowDataAttributes, "C04-ugc-unsafe-switches-off")
	verifAssert(len(u.elsMatchingAndAttrs) == 0 && len(u.elsAndStyles) == 0 && len(u.globalStyles) == 0 && len(u.elsMatchingAndStyles) == 0 && u.srcRewriter == nil, "C04-ugc-no-patterns-styles-rewriter")
	verifAssert(len(u.allowURLSchemes) == 3 && len(u.allowURLSchemeRegexps) == 0, "C04-ugc-three-schemes")
	for _, s := range []string{"http", "https", "mailto"} {
		fs, ok := u.allowURLSchemes[s]
		verifAssert(ok && len(fs) == 0, "C04-ugc-scheme-"+s)
	}
	verifAssert(len(u.elsAndAttrs) == len(ugcVocabulary), "C04-ugc-element-count")
	for el := range ugcVocabulary {
		_, ok := u.elsAndAttrs[el]
		verifAssert(ok, "C04-ugc-has-"+el)
	}
	for _, el := range ugcForbidden {
		_, ok := u.elsAndAttrs[el]
		verifAssert(!ok, "C04-ugc-lacks-"+el)
	}
	verifAssert(len(u.globalAttrs) == len(ugcGlobalAttrs), "C04-ugc-global-attribute-count")
	s := StrictPolicy()
	verifAssert(len(s.elsAndAttrs) == 0 && len(s.elsMatchingAndAttrs) == 0 && len(s.globalAttrs) == 0 && !s.allowComments && !s.allowUnsafe, "C04-strict-empty")
}
