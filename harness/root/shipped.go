//go:build verif

package bluemonday

import (
	"strings"

	"golang.org/x/net/html"
)

// ---- C04: shipped policies ------------------------------------------------------
//
// ugcVocabulary is written from the documentation of UGCPolicy (policies.go
// comments, README): element -> attributes allowed on it beyond the global
// ones (dir, lang, id, title).

var ugcGlobalAttrs = []string{"dir", "lang", "id", "title"}

var ugcVocabulary = map[string][]string{
	"article": nil, "aside": nil, "figure": nil, "section": nil, "summary": nil,
	"h1": nil, "h2": nil, "h3": nil, "h4": nil, "h5": nil, "h6": nil, "hgroup": nil,
	"br": nil, "div": nil, "hr": nil, "p": nil, "span": nil, "wbr": nil,
	"abbr": nil, "acronym": nil, "cite": nil, "code": nil, "dfn": nil, "em": nil, "figcaption": nil, "mark": nil,
	"s": nil, "samp": nil, "strong": nil, "sub": nil, "sup": nil, "var": nil,
	"b": nil, "i": nil, "pre": nil, "small": nil, "strike": nil, "tt": nil, "u": nil,
	"rp": nil, "rt": nil, "ruby": nil, "dl": nil, "dt": nil, "dd": nil, "caption": nil,
	"details":    {"open"},
	"blockquote": {"cite"},
	"a":          {"href"},
	"map":        {"name"},
	"area":       {"alt", "coords", "href", "rel", "shape"},
	"img":        {"usemap", "align", "alt", "height", "width", "src"},
	"q":          {"cite"},
	"time":       {"datetime"},
	"bdi":        {"dir"},
	"bdo":        {"dir"},
	"del":        {"cite", "datetime"},
	"ins":        {"cite", "datetime"},
	"ol":         {"type"},
	"ul":         {"type"},
	"li":         {"type", "value"},
	"table":      {"height", "width", "summary"},
	"col":        {"align", "height", "width", "span", "valign"},
	"colgroup":   {"align", "height", "width", "span", "valign"},
	"thead":      {"align", "valign"},
	"tr":         {"align", "valign"},
	"td":         {"abbr", "align", "colspan", "rowspan", "headers", "height", "width", "scope", "valign", "nowrap"},
	"th":         {"abbr", "align", "colspan", "rowspan", "headers", "height", "width", "scope", "valign", "nowrap"},
	"tbody":      {"align", "valign"},
	"tfoot":      {"align", "valign"},
	"meter":      {"value", "min", "max", "low", "high", "optimum"},
	"progress":   {"value", "max"},
}

// elements that must never be part of the UGC output
var ugcForbidden = []string{"script", "style", "iframe", "object", "embed", "form", "input", "button", "select", "textarea", "option",
	"base", "meta", "link", "svg", "math", "noscript", "xmp", "plaintext", "title", "template", "frame", "frameset", "applet", "video", "audio", "source", "track", "canvas", "body", "html", "head"}

func sortedVocabulary() []string {
	var names []string
	for k := range ugcVocabulary {
		names = append(names, k)
	}
	// insertion sort (no sort package semantics needed in the engine)
	for i := 1; i < len(names); i++ {
		for j := i; j > 0 && names[j] < names[j-1]; j-- {
			names[j], names[j-1] = names[j-1], names[j]
		}
	}
	return names
}

type c04Writer struct{ strict bool }

func (w *c04Writer) Write(b []byte) (int, error) { return w.WriteString(string(b)) }
func (w *c04Writer) WriteString(s string) (int, error) {
	verifWrite(s)
	tok, ok := verifProvenance(s)
	if !ok {
		verifAssert(false, "C04-raw-write")
		return len(s), nil
	}
	switch tok.Type {
	case html.TextToken:
	case html.StartTagToken, html.EndTagToken, html.SelfClosingTagToken:
		if w.strict {
			verifAssert(false, "C04-strict-emits-no-tag")
		} else {
			_, known := ugcVocabulary[tok.Data]
			verifAssert(known, "C04-ugc-tag-in-vocabulary")
		}
	default:
		verifAssert(false, "C04-comment-or-doctype-emitted")
	}
	return len(s), nil
}

func HarnessC04_ugcLoop() {
	p := UGCPolicy()
	err := p.sanitize(stubReader{}, &c04Writer{})
	verifNoteBool("returned-error", err != nil)
}

func HarnessC04_strictLoop() {
	p := StrictPolicy()
	err := p.sanitize(stubReader{}, &c04Writer{strict: true})
	verifNoteBool("returned-error", err != nil)
}

func inList(l []string, s string) bool {
	r := false
	for _, x := range l {
		r = verifOr(r, x == s)
	}
	return r
}

// HarnessC04_ugcAttrs: the real sanitizeAttrs under the real UGCPolicy on one
// free attribute of each vocabulary element.
func HarnessC04_ugcAttrs() {
	p := UGCPolicy()
	var names []string
	for _, n := range sortedVocabulary() {
		// del/ins cite carries a value pattern and URL validation at once; that
		// combination is left to C02 (pattern) and C03 (URL)
		if n != "del" && n != "ins" {
			names = append(names, n)
		}
	}
	el := names[nondetIntRange("el", 0, len(names)-1)]
	verifNote("el", el)
	key := nondetString("in.key")
	verifAssume(verifMatch(`^[^\s/>=A-Z\x00]+$`, key))
	val := nondetString("in.val")
	// values with embedded white space are rejected (or, for data: URIs,
	// normalised) by validURL; that rule is C03's subject and is assumed away
	// here to keep the instantiation decidable
	tv := strings.TrimSpace(val)
	verifAssume(verifNot(verifOr(verifOr(strings.Contains(tv, " "), strings.Contains(tv, "\t")), strings.Contains(tv, "\n"))))
	in := []html.Attribute{{Key: key, Val: val}}
	noteAttrs("in", in)
	out := p.sanitizeAttrs(el, in, p.elsAndAttrs[el])
	noteAttrs("out", out)
	verifReach("C04-attrs-reach")
	ok := true
	check := func(c bool, id string) {
		verifNoteBool("c:"+id, c)
		ok = verifAnd(ok, c)
	}
	for _, o := range out {
		allowed := verifOr(inList(ugcGlobalAttrs, o.Key), inList(ugcVocabulary[el], o.Key))
		if el == "a" || el == "area" {
			allowed = verifOr(allowed, o.Key == "rel")
		}
		check(allowed, "attribute-in-vocabulary")
		check(o.Key != "style", "no-style-attribute")
		check(verifNot(strings.HasPrefix(o.Key, "on")), "no-event-handler")
		isURL := (o.Key == "href" && (el == "a" || el == "area")) || (o.Key == "cite" && (el == "blockquote" || el == "q" || el == "del" || el == "ins")) || (o.Key == "src" && el == "img")
		if isURL {
			t := strings.TrimSpace(val)
			scheme := verifURLScheme(t)
			schemeOK := verifOr(verifOr(scheme == "http", scheme == "https"), verifOr(scheme == "mailto", scheme == ""))
			noWS := verifNot(verifOr(verifOr(strings.Contains(t, " "), strings.Contains(t, "\t")), strings.Contains(t, "\n")))
			check(verifAnd(verifAnd(noWS, verifURLOk(t)), schemeOK), "url-scheme-http-https-mailto-or-relative")
			check(o.Val == verifURLNorm(t), "url-normalised")
		}
	}
	// links get rel=nofollow
	if el == "a" || el == "area" {
		if _, has := firstAttr(out, "href"); has {
			rel, hasRel := firstAttr(out, "rel")
			check(verifAnd(hasRel, verifHasToken(rel, "nofollow")), "links-get-nofollow")
		}
	}
	// converse: a documented attribute with a canonical value passes (a few representative ones)
	verifAssert(ok, "C04")
}

// HarnessC04_ugcDup: the URL attribute of a UGC link/quote/image element given
// twice (the attribute filter edits the list while it walks it): every emitted
// URL attribute carries the normal form of an acceptable input value.
func HarnessC04_ugcDup() {
	p := UGCPolicy()
	pos := nondetIntRange("dup.pos", 0, 4)
	el := []string{"a", "area", "blockquote", "q", "img"}[pos]
	key := []string{"href", "href", "cite", "cite", "src"}[pos]
	verifNote("el", el)
	noWS := func(v string) bool {
		t := strings.TrimSpace(v)
		return verifNot(verifOr(verifOr(strings.Contains(t, " "), strings.Contains(t, "\t")), strings.Contains(t, "\n")))
	}
	v0, v1 := nondetString("in.val"), nondetString("in.val")
	verifAssume(noWS(v0))
	verifAssume(noWS(v1))
	in := []html.Attribute{{Key: key, Val: v0}, {Key: key, Val: v1}}
	noteAttrs("in", in)
	out := p.sanitizeAttrs(el, in, p.elsAndAttrs[el])
	noteAttrs("out", out)
	verifReach("C04-dup-reach")
	ok := true
	good := func(v string) (bool, string) {
		t := strings.TrimSpace(v)
		scheme := verifURLScheme(t)
		schemeOK := verifOr(verifOr(scheme == "http", scheme == "https"), verifOr(scheme == "mailto", scheme == ""))
		return verifAnd(verifURLOk(t), schemeOK), verifURLNorm(t)
	}
	g0, n0 := good(v0)
	g1, n1 := good(v1)
	for _, o := range out {
		if o.Key == key {
			c := verifOr(verifAnd(g0, o.Val == n0), verifAnd(g1, o.Val == n1))
			verifNoteBool("c:url-scheme-http-https-mailto-or-relative", c)
			ok = verifAnd(ok, c)
		}
	}
	verifAssert(ok, "C04")
}

// HarnessC04_tables: the shipped constructors' switches.
func HarnessC04_tables() {
	u := UGCPolicy()
	verifAssert(u.requireParseableURLs && u.allowRelativeURLs && u.requireNoFollow, "C04-ugc-url-switches")
	verifAssert(!u.allowUnsafe && !u.allowComments && !u.allowDataAttributes, "C04-ugc-unsafe-switches-off")
	verifAssert(len(u.elsMatchingAndAttrs) == 0 && len(u.elsAndStyles) == 0 && len(u.globalStyles) == 0 && len(u.elsMatchingAndStyles) == 0 && u.srcRewriter == nil, "C04-ugc-no-patterns-styles-rewriter")
	verifAssert(len(u.allowURLSchemes) == 3 && len(u.allowURLSchemeRegexps) == 0, "C04-ugc-three-schemes")
	for _, s := range []string{"http", "https", "mailto"} {
		fs, ok := u.allowURLSchemes[s]
		verifAssert(ok && len(fs) == 0, "C04-ugc-scheme-"+s)
	}
	verifAssert(len(u.elsAndAttrs) == len(ugcVocabulary), "C04-ugc-element-count")
	for el := range ugcVocabulary {
		_, ok := u.elsAndAttrs[el]
		verifAssert(ok, "C04-ugc-has-"+el)
	}
	for _, el := range ugcForbidden {
		_, ok := u.elsAndAttrs[el]
		verifAssert(!ok, "C04-ugc-lacks-"+el)
	}
	verifAssert(len(u.globalAttrs) == len(ugcGlobalAttrs), "C04-ugc-global-attribute-count")
	s := StrictPolicy()
	verifAssert(len(s.elsAndAttrs) == 0 && len(s.elsMatchingAndAttrs) == 0 && len(s.globalAttrs) == 0 && !s.allowComments && !s.allowUnsafe, "C04-strict-empty")
}

// ---- C20: re-sanitising is a no-op ---------------------------------------------------

func attrsSame(a, b []html.Attribute) bool {
	if len(a) != len(b) {
		return false
	}
	ok := true
	for i := range a {
		ok = verifAnd(ok, verifAnd(a[i].Key == b[i].Key, a[i].Val == b[i].Val))
	}
	return ok
}

// summaryValidURL replaces validURL in the twice-applied harnesses by the
// functional summary (normal form, verdict) whose stability under a second
// application is what HarnessC20_validURL establishes on the real code.
func summaryValidURL(p *Policy, rawurl string) (string, bool) {
	ok := verifValidURLOk(rawurl)
	if ok {
		return verifValidURLOut(rawurl), true
	}
	return "", false
}

// HarnessC20_validURL: a value accepted by the real validURL is accepted
// again, unchanged (policies without custom checks).
func HarnessC20_validURL() {
	p := &Policy{}
	p.init()
	p.RequireParseableURLs(true)
	p.allowRelativeURLs = nondetBool("p.allowRelative")
	sch := nondetString("p.scheme")
	verifAssume(verifMatch(`^[^A-Z]*$`, sch))
	p.allowURLSchemes[sch] = nil
	if nondetIntRange("p.hasSchemeRe", 0, 1) == 1 {
		p.allowURLSchemeRegexps = append(p.allowURLSchemeRegexps, nondetRegexp("p.schemere"))
	}
	raw := nondetString("raw")
	tv := strings.TrimSpace(raw)
	verifAssume(verifNot(verifOr(verifOr(strings.Contains(tv, " "), strings.Contains(tv, "\t")), strings.Contains(tv, "\n"))))
	verifNote("raw", raw)
	u, ok := p.validURL(raw)
	if !ok {
		return
	}
	verifReach("C20-validURL-accepts")
	verifAssert(u == verifURLNorm(tv), "C20-validURL-returns-normal-form")
	u2, ok2 := p.validURL(u)
	verifAssert(verifAnd(ok2, u2 == u), "C20-validURL-stable")
}

// HarnessC20_attrs: sanitizeAttrs is idempotent for policies of the
// statement's class (no value pattern on the attributes the sanitiser
// rewrites, no src rewriter).
func HarnessC20_attrs() {
	p := &Policy{}
	p.init()
	opts := c20Options[nondetIntRange("optsIdx", 0, len(c20Options)-1)]
	verifNoteInt("opts", opts)
	p.RequireNoFollowOnLinks(opts&1 != 0)
	p.RequireNoFollowOnFullyQualifiedLinks(opts&2 != 0)
	p.RequireNoReferrerOnLinks(opts&4 != 0)
	p.RequireNoReferrerOnFullyQualifiedLinks(opts&8 != 0)
	p.AddTargetBlankToFullyQualifiedLinks(opts&16 != 0)
	p.RequireCrossOriginAnonymous(opts&32 != 0)
	p.RequireParseableURLs(true)
	allowGlobally(p, "href", "src", "cite", "rel", "target", "crossorigin", "other")
	els := []string{"a", "link", "img", "q"}
	keysOf := [][]string{{"href", "rel", "target"}, {"href", "rel", "crossorigin"}, {"src", "crossorigin"}, {"cite", "other"}}
	ei := nondetIntRange("el", 0, len(els)-1)
	el := els[ei]
	n := nondetIntRange("in.n", 1, verifParam("maxAttrs"))
	var in []html.Attribute
	for i := 0; i < n; i++ {
		k := keysOf[ei][nondetIntRange("in.key", 0, len(keysOf[ei])-1)]
		in = append(in, html.Attribute{Key: k, Val: nondetString("in.val")})
	}
	noteAttrs("in", in)
	verifNote("el", el)
	out1 := p.sanitizeAttrs(el, in, p.elsAndAttrs[el])
	noteAttrs("out1", out1)
	out2 := p.sanitizeAttrs(el, out1, p.elsAndAttrs[el])
	noteAttrs("out2", out2)
	verifReach("C20-reach")
	verifAssert(attrsSame(out1, out2), "C20-sanitizeAttrs-idempotent")
}

var c20Options = []int{0, 5, 31, 32, 63}

// HarnessC20_sandbox: the sandbox filter is idempotent.
func HarnessC20_sandbox() {
	p := &Policy{}
	p.init()
	p.requireSandboxOnIFrame = map[string]bool{}
	for _, t := range sandboxTokens {
		p.requireSandboxOnIFrame[t] = nondetBool("sb." + t)
	}
	allowGlobally(p, "sandbox", "other")
	n := nondetIntRange("in.n", 1, 2)
	in := symAttrs(n, "sandbox", "other")
	noteAttrs("in", in)
	verifNote("el", "iframe")
	out1 := p.sanitizeAttrs("iframe", in, p.elsAndAttrs["iframe"])
	noteAttrs("out1", out1)
	out2 := p.sanitizeAttrs("iframe", out1, p.elsAndAttrs["iframe"])
	noteAttrs("out2", out2)
	verifReach("C20-reach")
	verifAssert(attrsSame(out1, out2), "C20-sandbox-filter-idempotent")
}

// HarnessC20_ugc: the same under the real UGCPolicy, for every vocabulary
// element other than del/ins.
func HarnessC20_ugc() {
	p := UGCPolicy()
	var names []string
	for _, n := range sortedVocabulary() {
		if n != "del" && n != "ins" {
			names = append(names, n)
		}
	}
	el := names[nondetIntRange("el", 0, len(names)-1)]
	verifNote("el", el)
	key := nondetString("in.key")
	verifAssume(verifMatch(`^[^\s/>=A-Z\x00]+$`, key))
	val := nondetString("in.val")
	tv := strings.TrimSpace(val)
	verifAssume(verifNot(verifOr(verifOr(strings.Contains(tv, " "), strings.Contains(tv, "\t")), strings.Contains(tv, "\n"))))
	in := []html.Attribute{{Key: key, Val: val}}
	noteAttrs("in", in)
	out1 := p.sanitizeAttrs(el, in, p.elsAndAttrs[el])
	noteAttrs("out1", out1)
	out2 := out1
	if len(out1) > 0 {
		out2 = p.sanitizeAttrs(el, out1, p.elsAndAttrs[el])
	}
	noteAttrs("out2", out2)
	verifReach("C20-ugc-reach")
	verifAssert(attrsSame(out1, out2), "C20-ugc-sanitizeAttrs-idempotent")
}
