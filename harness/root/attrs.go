//go:build verif

package bluemonday

import (
	"net/url"
	"strings"

	"golang.org/x/net/html"
)

// ---- helpers shared by the sanitizeAttrs unit harnesses --------------------

func pickKey(tag string, choices ...string) string {
	i := nondetIntRange(tag, 0, len(choices))
	if i < len(choices) {
		return choices[i]
	}
	k := nondetString(tag + ".free")
	for _, c := range choices {
		verifAssume(k != c)
	}
	// A1: attribute keys delivered by the tokenizer
	verifAssume(verifMatch(`^[^\s/>=A-Z\x00]+$`, k))
	return k
}

func symAttrs(n int, choices ...string) []html.Attribute {
	var in []html.Attribute
	for i := 0; i < n; i++ {
		in = append(in, html.Attribute{Key: pickKey("in.key", choices...), Val: nondetString("in.val")})
	}
	return in
}

func noteAttrs(prefix string, as []html.Attribute) {
	verifNoteInt(prefix+".n", len(as))
	for i, a := range as {
		verifNote(prefix+".k"+itoa(i), a.Key)
		verifNote(prefix+".v"+itoa(i), a.Val)
	}
}

func itoa(i int) string {
	return string(rune('0' + i))
}

func firstAttr(as []html.Attribute, key string) (string, bool) {
	for _, a := range as {
		if a.Key == key {
			return a.Val, true
		}
	}
	return "", false
}

// stubValidURL replaces (*Policy).validURL where URL validation is not the
// subject: an arbitrary verdict and an arbitrary normalised value.
func stubValidURL(p *Policy, rawurl string) (string, bool) {
	out, ok := nondetString("urlstub.out"), nondetBool("urlstub.ok")
	verifNoteURL(rawurl, out, ok)
	return out, ok
}

// allowGlobally registers a rule without value pattern for each key.
func allowGlobally(p *Policy, keys ...string) {
	for _, k := range keys {
		p.globalAttrs[k] = append(p.globalAttrs[k], attrPolicy{})
	}
}

// ---- C11 link hardening ------------------------------------------------------

// c11Options lists the option combinations explored (bit 0 nofollow, 1
// nofollow-fq, 2 noreferrer, 3 noreferrer-fq, 4 target-blank-fq).
var c11Quick = []int{1, 2, 4, 8, 16, 31, 10, 21}

func HarnessC11_links() {
	p := &Policy{}
	p.init()
	var opts int
	if verifParam("allOptions") == 1 {
		opts = nondetIntRange("opts", 1, 31)
	} else {
		opts = c11Quick[nondetIntRange("optsIdx", 0, len(c11Quick)-1)]
	}
	verifNoteInt("opts", opts)
	nf, nffq, nr, nrfq, tb := opts&1 != 0, opts&2 != 0, opts&4 != 0, opts&8 != 0, opts&16 != 0
	// through the builder methods, which also switch URL checking on
	p.RequireNoFollowOnLinks(nf)
	p.RequireNoFollowOnFullyQualifiedLinks(nffq)
	p.RequireNoReferrerOnLinks(nr)
	p.RequireNoReferrerOnFullyQualifiedLinks(nrfq)
	p.AddTargetBlankToFullyQualifiedLinks(tb)
	// URL checking may be switched off again afterwards; the hardening is
	// stated for every emitted link, checked or not
	parseOff := nondetBool("parseOff")
	verifNoteBool("parseOff", parseOff)
	if parseOff {
		p.RequireParseableURLs(false)
	}
	allowGlobally(p, "href", "rel", "target", "other")
	verifFreeze()
	el := pickEl("el", "a", "area", "link")
	n := nondetIntRange("in.n", 1, nondetMax("maxAttrs"))
	in := symAttrs(n, "href", "rel", "target", "other")
	noteAttrs("in", in)
	verifNote("el", el)
	out := p.sanitizeAttrs(el, in, p.elsAndAttrs[el])
	noteAttrs("out", out)

	verifAssert(verifEffects() == 0, "C13-no-write-to-shared-state")
	href, hasHref := firstAttr(out, "href")
	if !hasHref {
		return
	}
	verifReach("C11-href-survives")
	rel, hasRel := firstAttr(out, "rel")
	ext := verifAnd(verifURLOk(href), verifURLHost(href) != "")
	ok := true
	check := func(c bool, id string) {
		verifNoteBool("c:"+id, c)
		ok = verifAnd(ok, c)
	}
	if el == "a" || el == "area" || el == "link" {
		check(verifImplies(verifOr(nf, verifAnd(nffq, ext)), verifAnd(hasRel, verifHasToken(rel, "nofollow"))), "nofollow-token")
		check(verifImplies(verifOr(nr, verifAnd(nrfq, ext)), verifAnd(hasRel, verifHasToken(rel, "noreferrer"))), "noreferrer-token")
	}
	if el == "a" {
		tgt, hasT := firstAttr(out, "target")
		check(verifImplies(verifAnd(tb, ext), verifAnd(hasT, tgt == "_blank")), "target-blank")
		check(verifImplies(verifAnd(hasT, tgt == "_blank"), verifAnd(hasRel, verifHasToken(rel, "noopener"))), "noopener-token")
	}
	// existing tokens kept, required tokens not added twice
	inRel, inHasRel := firstAttr(in, "rel")
	if inHasRel && hasRel {
		check(verifMatchPrefix(rel, inRel), "existing-rel-kept")
		for _, t := range []string{"nofollow", "noreferrer", "noopener"} {
			check(verifImplies(verifHasToken(inRel, t), verifNot(verifAppended(rel, inRel, " "+t))), "no-duplicate-"+t)
		}
	}
	verifAssert(ok, "C11")
}

// nondetMax returns an engine-configured bound (the tag names a harness
// parameter set by the check driver).
func nondetMax(tag string) int { return verifParam(tag) }

func pickEl(tag string, choices ...string) string {
	i := nondetIntRange(tag, 0, len(choices))
	if i < len(choices) {
		return choices[i]
	}
	e := nondetString(tag + ".free")
	for _, c := range []string{"a", "area", "base", "link", "blockquote", "del", "ins", "q", "audio", "embed", "iframe", "img", "input", "script", "source", "track", "video"} {
		verifAssume(e != c)
	}
	verifAssume(verifMatch(`^[a-z][^\s/>A-Z\x00]*$`, e))
	return e
}

// ---- C12 forced attributes ----------------------------------------------------

var sandboxTokens = []string{
	"allow-downloads", "allow-downloads-without-user-activation", "allow-forms", "allow-modals",
	"allow-orientation-lock", "allow-pointer-lock", "allow-popups", "allow-popups-to-escape-sandbox",
	"allow-presentation", "allow-same-origin", "allow-scripts", "allow-storage-access-by-user-activation",
	"allow-top-navigation", "allow-top-navigation-by-user-activation",
}

func HarnessC12_forced() {
	p := &Policy{}
	p.init()
	// mode 0: crossorigin only; 1: sandbox only; 2: both; 3 and 4: both, with the
	// sandbox table built entry by entry (empty table / exactly one entry), so
	// that code looking at the table's size or iterating it sees a real table
	mode := nondetIntRange("mode", 0, 4)
	verifNoteInt("mode", mode)
	if mode != 1 {
		p.RequireCrossOriginAnonymous(true)
	}
	var allowed []bool
	if mode == 3 || mode == 4 {
		p.requireSandboxOnIFrame = map[string]bool{}
		idx := -1
		if mode == 4 {
			idx = nondetIntRange("sb.idx", 0, len(sandboxTokens)-1)
		}
		for j, t := range sandboxTokens {
			if j == idx {
				p.requireSandboxOnIFrame[t] = true
			}
			verifNoteBool("sb."+t, j == idx)
			allowed = append(allowed, j == idx)
		}
	} else if mode != 0 {
		// an entry mapped to false behaves like an absent entry for every lookup
		// the filter makes, so a symbolic value per documented token covers all
		// subsets without forking
		p.requireSandboxOnIFrame = map[string]bool{}
		for _, t := range sandboxTokens {
			b := nondetBool("sb." + t)
			verifNoteBool("sb."+t, b)
			p.requireSandboxOnIFrame[t] = b
			allowed = append(allowed, b)
		}
	}
	allowGlobally(p, "crossorigin", "sandbox", "other")
	verifFreeze()
	el := pickEl("el", "audio", "img", "link", "script", "video", "iframe")
	n := nondetIntRange("in.n", 1, verifParam("maxAttrs"))
	in := symAttrs(n, "crossorigin", "sandbox", "other")
	noteAttrs("in", in)
	verifNote("el", el)
	out := p.sanitizeAttrs(el, in, p.elsAndAttrs[el])
	noteAttrs("out", out)
	verifAssert(verifEffects() == 0, "C13-no-write-to-shared-state")
	if len(out) == 0 {
		return
	}
	verifReach("C12-emitted-with-attributes")
	ok := true
	check := func(c bool, id string) {
		verifNoteBool("c:"+id, c)
		ok = verifAnd(ok, c)
	}
	if mode != 1 && (el == "audio" || el == "img" || el == "link" || el == "script" || el == "video") {
		found := false
		for _, a := range out {
			if a.Key == "crossorigin" {
				found = true
				check(a.Val == "anonymous", "crossorigin-anonymous")
			}
		}
		check(found, "crossorigin-present")
	}
	if mode != 0 && el == "iframe" {
		found := false
		for _, a := range out {
			if a.Key == "sandbox" {
				found = true
				// The emitted value is re-read as a browser does (split on ASCII
				// white space): every token is one the policy listed, none twice.
				toks := stringsFields(a.Val)
				for i, t := range toks {
					listed := false
					for j, lit := range sandboxTokens {
						listed = verifOr(listed, verifAnd(t == lit, allowed[j]))
					}
					check(listed, "sandbox-token-listed")
					for k := 0; k < i; k++ {
						check(toks[k] != t, "sandbox-no-duplicates")
					}
				}
				// and it is in canonical form: single spaces, no padding
				check(a.Val == stringsJoin(toks), "sandbox-canonical")
			}
		}
		check(found, "sandbox-present")
	}
	verifAssert(ok, "C12")
}

func stringsFields(s string) []string { return strings.Fields(s) }
func stringsJoin(l []string) string   { return strings.Join(l, " ") }

func sandboxListPattern() string {
	alt := ""
	for i, t := range sandboxTokens {
		if i > 0 {
			alt += "|"
		}
		alt += t
	}
	return `^((` + alt + `)( (` + alt + `))*)?$`
}

// HarnessC12_builder runs the real RequireSandboxOnIFrame / AllowIFrames on
// each documented value and compares the resulting table with the documented
// token of that value.
func HarnessC12_builder() {
	for i, t := range sandboxTokens {
		p := NewPolicy()
		p.RequireSandboxOnIFrame(SandboxValue(i))
		verifAssert(len(p.requireSandboxOnIFrame) == 1 && p.requireSandboxOnIFrame[t], "C12-builder-"+t)
		q := NewPolicy()
		q.AllowIFrames(SandboxValue(i))
		_, hasRule := q.elsAndAttrs["iframe"]["sandbox"]
		verifAssert(hasRule && len(q.requireSandboxOnIFrame) == 1 && q.requireSandboxOnIFrame[t], "C12-allowiframes-"+t)
	}
	p := NewPolicy()
	p.RequireSandboxOnIFrame()
	verifAssert(p.requireSandboxOnIFrame != nil && len(p.requireSandboxOnIFrame) == 0, "C12-builder-empty")
}

// ---- C02 / C07: generic attribute filtering ---------------------------------------

// ruleList builds one of the rule-list shapes: 0 [R], 1 [R,R'], 2 [nil], 3 [R,nil].
func ruleList(tag string, shape int) []attrPolicy {
	switch shape {
	case 0:
		return []attrPolicy{{regexp: nondetRegexp(tag + ".re")}}
	case 1:
		return []attrPolicy{{regexp: nondetRegexp(tag + ".re")}, {regexp: nondetRegexp(tag + ".re")}}
	case 2:
		return []attrPolicy{{}}
	default:
		return []attrPolicy{{regexp: nondetRegexp(tag + ".re")}, {}}
	}
}

// specAccepts is written from the statement: some rule without pattern, or
// some rule whose pattern matches the (decoded) value.
func specAccepts(rules []attrPolicy, val string) bool {
	acc := false
	for _, r := range rules {
		if r.regexp == nil {
			acc = true
		} else {
			acc = verifOr(acc, r.regexp.MatchString(val))
		}
	}
	return acc
}

func HarnessAttrs_generic() {
	p := &Policy{}
	p.init()
	e := verifParam("tableEntries")
	aps := map[string][]attrPolicy{}
	var keys []string
	for i := 0; i < e; i++ {
		k := nondetString("aps.key")
		for _, o := range keys {
			verifAssume(k != o)
		}
		keys = append(keys, k)
		aps[k] = ruleList("aps", nondetIntRange("aps.shape", 0, 3))
	}
	keys = nil
	for i := 0; i < e; i++ {
		k := nondetString("glob.key")
		for _, o := range keys {
			verifAssume(k != o)
		}
		keys = append(keys, k)
		p.globalAttrs[k] = ruleList("glob", nondetIntRange("glob.shape", 0, 3))
	}
	verifFreeze()
	el := pickEl("el")
	n := nondetIntRange("in.n", 1, verifParam("maxAttrs"))
	in := symAttrs(n)
	noteAttrs("in", in)
	verifNote("el", el)
	out := p.sanitizeAttrs(el, in, aps)
	noteAttrs("out", out)
	verifAssert(verifEffects() == 0, "C13-no-write-to-shared-state")

	ok := true
	check := func(c bool, id string) {
		verifNoteBool("c:"+id, c)
		ok = verifAnd(ok, c)
	}
	allowed := make([]bool, len(in))
	all := true
	for j, a := range in {
		allowed[j] = verifOr(specAccepts(aps[a.Key], a.Val), specAccepts(p.globalAttrs[a.Key], a.Val))
		verifNoteBool("allowed"+itoa(j), allowed[j])
		all = verifAnd(all, allowed[j])
	}
	// C02: every emitted attribute is an allowed input attribute, unchanged
	for _, o := range out {
		from := false
		for j, a := range in {
			from = verifOr(from, verifAnd(verifAnd(o.Key == a.Key, o.Val == a.Val), allowed[j]))
		}
		check(from, "C02-emitted-attribute-allowed")
	}
	// C07: if every input attribute is allowed the list passes unchanged; in
	// general the allowed ones pass in order
	same := len(out) == len(in)
	if same {
		eq := true
		for j := range in {
			eq = verifAnd(eq, verifAnd(out[j].Key == in[j].Key, out[j].Val == in[j].Val))
		}
		check(verifImplies(all, eq), "C07-conforming-list-unchanged")
	} else {
		check(verifNot(all), "C07-conforming-list-unchanged")
	}
	verifAssert(ok, "ATTRS")
	verifReach("ATTRS-reach")
}

// HarnessAttrs_data: data-* attributes.
func HarnessAttrs_data() {
	p := &Policy{}
	p.init()
	p.AllowDataAttributes()
	key := nondetString("in.key")
	verifAssume(verifMatch(`^[^\s/>=A-Z\x00]+$`, key)) // A1
	val := nondetString("in.val")
	in := []html.Attribute{{Key: key, Val: val}}
	noteAttrs("in", in)
	out := p.sanitizeAttrs("div", in, map[string][]attrPolicy{})
	noteAttrs("out", out)
	// HTML standard: a custom data attribute is "data-" followed by at least
	// one character, with no ASCII upper case (other restrictions are A1)
	wellFormed := verifMatch(`^data-[^A-Z]+$`, key)
	if len(out) > 0 {
		verifReach("DATA-kept")
		verifAssert(verifAnd(wellFormed, verifAnd(out[0].Key == key, out[0].Val == val)), "C02-data-attribute-wellformed")
	}
}

// HarnessAttrs_matchRegex: rules of all matching element patterns are merged
// (C07: rules are additive).
func HarnessAttrs_matchRegex() {
	p := &Policy{}
	p.init()
	k := nondetString("key")
	r1, r2, r3 := nondetRegexp("rule1"), nondetRegexp("rule2"), nondetRegexp("rule3")
	e1, e2 := nondetRegexp("elre1"), nondetRegexp("elre2")
	p.elsMatchingAndAttrs[e1] = map[string][]attrPolicy{k: {{regexp: r1}, {regexp: r2}}}
	p.elsMatchingAndAttrs[e2] = map[string][]attrPolicy{k: {{regexp: r3}}}
	verifFreeze()
	name := nondetString("name")
	aps, matched := p.matchRegex(name)
	m1, m2 := e1.MatchString(name), e2.MatchString(name)
	verifAssert(matched == verifOr(m1, m2), "C07-matched-iff-some-pattern")
	has := func(r interface{}) bool {
		for _, ap := range aps[k] {
			if verifSameObject(ap.regexp, r) {
				return true
			}
		}
		return false
	}
	h1, h2, h3 := has(r1), has(r2), has(r3)
	verifAssert(verifAnd(verifAnd(verifImplies(m1, h1), verifImplies(m1, h2)), verifImplies(m2, h3)), "C07-pattern-rules-merged")
	verifAssert(verifAnd(verifAnd(verifImplies(h1, m1), verifImplies(h2, m1)), verifImplies(h3, m2)), "C02-no-rules-from-non-matching-patterns")
	// a second element name, looked up after the first: the answer must not
	// depend on the earlier call (the merged table is per call)
	name2 := nondetString("name2")
	aps2, matched2 := p.matchRegex(name2)
	n1, n2 := e1.MatchString(name2), e2.MatchString(name2)
	verifAssert(matched2 == verifOr(n1, n2), "C07-matched-iff-some-pattern-2nd-call")
	c1, c2, c3 := 0, 0, 0
	for _, ap := range aps2[k] {
		if verifSameObject(ap.regexp, r1) {
			c1++
		}
		if verifSameObject(ap.regexp, r2) {
			c2++
		}
		if verifSameObject(ap.regexp, r3) {
			c3++
		}
	}
	verifAssert(verifAnd(verifAnd(verifImplies(n1, c1 == 1 && c2 == 1), verifImplies(n2, c3 == 1)), verifImplies(verifNot(n1), c1 == 0 && c2 == 0)), "C02-second-lookup-independent-of-first")
	verifAssert(verifImplies(verifNot(n2), c3 == 0), "C02-second-lookup-no-leaked-rules")
	verifAssert(len(aps2[k]) == c1+c2+c3, "C02-second-lookup-only-policy-rules")
	verifAssert(verifEffects() == 0, "C13-no-write-to-shared-state")
}

// ---- C03: URL attributes ------------------------------------------------------------

var urlPositions = [][2]string{
	{"a", "href"}, {"area", "href"}, {"base", "href"}, {"link", "href"},
	{"blockquote", "cite"}, {"del", "cite"}, {"ins", "cite"}, {"q", "cite"},
	{"audio", "src"}, {"embed", "src"}, {"iframe", "src"}, {"img", "src"}, {"input", "src"},
	{"script", "src"}, {"source", "src"}, {"track", "src"}, {"video", "src"},
}

func HarnessC03_urls() {
	p := &Policy{}
	p.init()
	p.RequireParseableURLs(true)
	p.allowRelativeURLs = nondetBool("p.allowRelative")
	verifNoteBool("p.allowRelative", p.allowRelativeURLs)
	// scheme table
	e := verifParam("schemeEntries")
	var keys []string
	var shapes []int
	for i := 0; i < e; i++ {
		s := nondetString("p.scheme")
		verifAssume(verifMatch(`^[^A-Z]*$`, s)) // AllowURLSchemes lower-cases
		for _, o := range keys {
			verifAssume(s != o)
		}
		keys = append(keys, s)
		shape := nondetIntRange("p.schemeShape", 0, 2)
		shapes = append(shapes, shape)
		switch shape {
		case 0:
			p.allowURLSchemes[s] = nil
		case 1:
			p.allowURLSchemes[s] = []urlPolicy{urlPolicy(nondetURLPred("p.urlpred"))}
		default:
			p.allowURLSchemes[s] = []urlPolicy{urlPolicy(nondetURLPred("p.urlpred")), urlPolicy(nondetURLPred("p.urlpred"))}
		}
	}
	if nondetIntRange("p.hasSchemeRe", 0, 1) == 1 {
		p.allowURLSchemeRegexps = append(p.allowURLSchemeRegexps, nondetRegexp("p.schemere"))
	}
	hasRW := nondetIntRange("p.hasRewriter", 0, 1) == 1
	if hasRW {
		p.srcRewriter = urlRewriter(nondetRewriter("p.rewrite"))
	}
	hiPos := len(urlPositions) - 1
	if verifParam("onlyPos") == 1 {
		hiPos = 0
	}
	pos := nondetIntRange("pos", 0, hiPos)
	el, key := urlPositions[pos][0], urlPositions[pos][1]
	verifNoteInt("pos", pos)
	allowGlobally(p, key, "other")
	verifFreeze()
	// one or two attributes; each is the URL attribute of the position or an
	// unrelated allowed attribute (duplicates of the URL attribute included)
	in := []html.Attribute{{Key: key, Val: nondetString("in.val")}}
	noteAttrs("in", in)
	out := p.sanitizeAttrs(el, in, map[string][]attrPolicy{})
	noteAttrs("out", out)
	verifAssert(verifEffects() == 0, "C13-no-write-to-shared-state")
	nURL := 0
	for _, o := range out {
		if o.Key == key {
			nURL++
		}
	}
	if nURL == 0 {
		verifReach("C03-dropped")
		return
	}
	verifReach("C03-survives")
	// ---- oracle, from the statement, over the A3 functions ----
	ok := true
	check := func(c bool, id string) {
		verifNoteBool("c:"+id, c)
		ok = verifAnd(ok, c)
	}
	// specURL(raw) = (acceptable, emitted value); the statement for one value
	spec := func(raw string) (bool, bool, string) {
		t := strings.TrimSpace(raw)
		hasWS := verifOr(verifOr(strings.Contains(t, " "), strings.Contains(t, "\t")), strings.Contains(t, "\n"))
		scheme := verifURLScheme(t)
		schemeOK := false
		registered := false
		for i, k := range keys {
			registered = verifOr(registered, scheme == k)
			if shapes[i] == 0 {
				schemeOK = verifOr(schemeOK, scheme == k)
			} else {
				u, _ := url.Parse(t)
				acc := false
				if u != nil {
					for _, f := range p.allowURLSchemes[k] {
						acc = verifOr(acc, f(u))
					}
				}
				schemeOK = verifOr(schemeOK, verifAnd(scheme == k, acc))
			}
		}
		for _, re := range p.allowURLSchemeRegexps {
			schemeOK = verifOr(schemeOK, verifAnd(verifNot(registered), re.MatchString(scheme)))
		}
		good := verifAnd(verifURLOk(t), verifOr(verifAnd(scheme != "", schemeOK), verifAnd(scheme == "", verifAnd(p.allowRelativeURLs, verifURLNorm(t) != ""))))
		val := verifURLNorm(t)
		if hasRW && key == "src" {
			u2, err := url.Parse(verifURLNorm(t))
			if err == nil {
				p.srcRewriter(u2)
				val = u2.String()
			}
		}
		return hasWS, good, val
	}
	var ws, good []bool
	var vals []string
	for _, a := range in {
		if a.Key == key {
			w, g, v := spec(a.Val)
			ws, good, vals = append(ws, w), append(good, g), append(vals, v)
		} else {
			ws, good, vals = append(ws, false), append(good, false), append(vals, "")
		}
	}
	// every emitted URL attribute comes from an input URL attribute that the
	// statement accepts (white-space free unless data:, parseable, allowed
	// scheme or allowed relative) and carries its normal form / rewritten form
	for _, o := range out {
		if o.Key != key {
			continue
		}
		from := false
		for j, a := range in {
			if a.Key != key {
				continue
			}
			plainOK := verifAnd(verifNot(ws[j]), verifAnd(good[j], o.Val == vals[j]))
			dataOK := verifAnd(ws[j], strings.HasPrefix(strings.TrimSpace(a.Val), "data:"))
			from = verifOr(from, verifOr(plainOK, dataOK))
		}
		check(from, "emitted-url-is-an-accepted-input-url")
	}
	verifAssert(ok, "C03")
}

// HarnessC03_multi: several attributes per tag with validURL replaced by an
// arbitrary verdict; checks that every emitted URL attribute went through
// validURL and carries its result (and the rewriter's, for src).
func HarnessC03_multi() {
	p := &Policy{}
	p.init()
	p.RequireParseableURLs(true)
	pos := nondetIntRange("pos", 0, len(urlPositions)-1)
	el, key := urlPositions[pos][0], urlPositions[pos][1]
	verifNoteInt("pos", pos)
	allowGlobally(p, key, "other")
	n := nondetIntRange("in.n", 2, verifParam("maxAttrs"))
	var in []html.Attribute
	for i := 0; i < n; i++ {
		k := key
		if nondetIntRange("in.isOther", 0, 1) == 1 {
			k = "other"
		}
		in = append(in, html.Attribute{Key: k, Val: nondetString("in.val")})
	}
	noteAttrs("in", in)
	out := p.sanitizeAttrs(el, in, map[string][]attrPolicy{})
	noteAttrs("out", out)
	verifReach("C03m-reach")
	verifNoteInt("nstubs", verifURLStubCount())
	ok := true
	for _, o := range out {
		if o.Key != key {
			continue
		}
		ok = verifAnd(ok, verifURLStubProduced(o.Val))
	}
	// and every accepted URL attribute is emitted (C07 direction), in order
	verifAssert(ok, "C03m")
}

// HarnessC13_spareCapacity: rule lists built by several builder calls have
// spare capacity; filtering an attribute must not write into it (an append
// onto a policy slice would).
func HarnessC13_spareCapacity() {
	p := NewPolicy()
	for i := 0; i < 3; i++ {
		p.AllowAttrs("k").Matching(nondetRegexp("p.gre")).Globally()
		p.AllowAttrs("k").Matching(nondetRegexp("p.ere")).OnElements("e")
	}
	p.AllowAttrs("k").Matching(nondetRegexp("p.fre")).OnElements("f")
	verifFreeze()
	el := pickEl("el", "e", "f", "g")
	in := []html.Attribute{{Key: "k", Val: nondetString("in.val")}, {Key: pickKey("in.key", "k", "other"), Val: nondetString("in.val")}}
	out := p.sanitizeAttrs(el, in, p.elsAndAttrs[el])
	_ = out
	verifAssert(verifEffects() == 0, "C13-no-write-to-shared-state")
}
