//go:build verif

package bluemonday

import (
	"strings"

	"golang.org/x/net/html"
)

// ---- helpers shared by the sanitizeAttrs unit harnesses --------------------

func pickKey(tag string, choices ...string) string {
	i := nondetIntRange(tag, 0, len(choices))
	if i < len(choices) {
		return choices[i]
	}
	k := nondetString(tag + ".free")
	for _, c := range choices {
		verifAssume(k != c)
	}
	// A1: attribute keys delivered by the tokenizer
	verifAssume(verifMatch(`^[^\s/>=A-Z\x00]+$`, k))
	return k
}

func symAttrs(n int, choices ...string) []html.Attribute {
	var in []html.Attribute
	for i := 0; i < n; i++ {
		in = append(in, html.Attribute{Key: pickKey("in.key", choices...), Val: nondetString("in.val")})
	}
	return in
}

func noteAttrs(prefix string, as []html.Attribute) {
	verifNoteInt(prefix+".n", len(as))
	for i, a := range as {
		verifNote(prefix+".k"+itoa(i), a.Key)
		verifNote(prefix+".v"+itoa(i), a.Val)
	}
}

func itoa(i int) string {
	return string(rune('0' + i))
}

func firstAttr(as []html.Attribute, key string) (string, bool) {
	for _, a := range as {
		if a.Key == key {
			return a.Val, true
		}
	}
	return "", false
}

// stubValidURL replaces (*Policy).validURL where URL validation is not the
// subject: an arbitrary verdict and an arbitrary normalised value.
func stubValidURL(p *Policy, rawurl string) (string, bool) {
	out, ok := nondetString("urlstub.out"), nondetBool("urlstub.ok")
	verifNoteURL(rawurl, out, ok)
	return out, ok
}

// allowGlobally registers a rule without value pattern for each key.
func allowGlobally(p *Policy, keys ...string) {
	for _, k := range keys {
		p.globalAttrs[k] = append(p.globalAttrs[k], attrPolicy{})
	}
}

// ---- C11 link hardening ------------------------------------------------------

// c11Options lists the option combinations explored (bit 0 nofollow, 1
// nofollow-fq, 2 noreferrer, 3 noreferrer-fq, 4 target-blank-fq).
var c11Quick = []int{1, 2, 4, 8, 16, 31, 10, 21}

func HarnessC11_links() {
	p := &Policy{}
	p.init()
	var opts int
	if verifParam("allOptions") == 1 {
		opts = nondetIntRange("opts", 1, 31)
	} else {
		opts = c11Quick[nondetIntRange("optsIdx", 0, len(c11Quick)-1)]
	}
	verifNoteInt("opts", opts)
	nf, nffq, nr, nrfq, tb := opts&1 != 0, opts&2 != 0, opts&4 != 0, opts&8 != 0, opts&16 != 0
	// through the builder methods, which also switch URL checking on
	p.RequireNoFollowOnLinks(nf)
	p.RequireNoFollowOnFullyQualifiedLinks(nffq)
	p.RequireNoReferrerOnLinks(nr)
	p.RequireNoReferrerOnFullyQualifiedLinks(nrfq)
	p.AddTargetBlankToFullyQualifiedLinks(tb)
	allowGlobally(p, "href", "rel", "target", "other")
	el := pickEl("el", "a", "area", "link")
	n := nondetIntRange("in.n", 1, nondetMax("maxAttrs"))
	in := symAttrs(n, "href", "rel", "target", "other")
	noteAttrs("in", in)
	verifNote("el", el)
	out := p.sanitizeAttrs(el, in, p.elsAndAttrs[el])
	noteAttrs("out", out)

	href, hasHref := firstAttr(out, "href")
	if !hasHref {
		return
	}
	verifReach("C11-href-survives")
	rel, hasRel := firstAttr(out, "rel")
	ext := verifAnd(verifURLOk(href), verifURLHost(href) != "")
	ok := true
	check := func(c bool, id string) {
		verifNoteBool("c:"+id, c)
		ok = verifAnd(ok, c)
	}
	if el == "a" || el == "area" || el == "link" {
		check(verifImplies(verifOr(nf, verifAnd(nffq, ext)), verifAnd(hasRel, verifHasToken(rel, "nofollow"))), "nofollow-token")
		check(verifImplies(verifOr(nr, verifAnd(nrfq, ext)), verifAnd(hasRel, verifHasToken(rel, "noreferrer"))), "noreferrer-token")
	}
	if el == "a" {
		tgt, hasT := firstAttr(out, "target")
		check(verifImplies(verifAnd(tb, ext), verifAnd(hasT, tgt == "_blank")), "target-blank")
		check(verifImplies(verifAnd(hasT, tgt == "_blank"), verifAnd(hasRel, verifHasToken(rel, "noopener"))), "noopener-token")
	}
	// existing tokens kept, required tokens not added twice
	inRel, inHasRel := firstAttr(in, "rel")
	if inHasRel && hasRel {
		check(verifMatchPrefix(rel, inRel), "existing-rel-kept")
		for _, t := range []string{"nofollow", "noreferrer", "noopener"} {
			check(verifImplies(verifHasToken(inRel, t), verifNot(verifAppended(rel, inRel, " "+t))), "no-duplicate-"+t)
		}
	}
	verifAssert(ok, "C11")
}

// nondetMax returns an engine-configured bound (the tag names a harness
// parameter set by the check driver).
func nondetMax(tag string) int { return verifParam(tag) }

func pickEl(tag string, choices ...string) string {
	i := nondetIntRange(tag, 0, len(choices))
	if i < len(choices) {
		return choices[i]
	}
	e := nondetString(tag + ".free")
	for _, c := range []string{"a", "area", "base", "link", "blockquote", "del", "ins", "q", "audio", "embed", "iframe", "img", "input", "script", "source", "track", "video"} {
		verifAssume(e != c)
	}
	verifAssume(verifMatch(`^[a-z][^\s/>A-Z\x00]*$`, e))
	return e
}

// ---- C12 forced attributes ----------------------------------------------------

var sandboxTokens = []string{
	"allow-downloads", "allow-downloads-without-user-activation", "allow-forms", "allow-modals",
	"allow-orientation-lock", "allow-pointer-lock", "allow-popups", "allow-popups-to-escape-sandbox",
	"allow-presentation", "allow-same-origin", "allow-scripts", "allow-storage-access-by-user-activation",
	"allow-top-navigation", "allow-top-navigation-by-user-activation",
}

func HarnessC12_forced() {
	p := &Policy{}
	p.init()
	mode := nondetIntRange("mode", 0, 2)
	verifNoteInt("mode", mode)
	if mode != 1 {
		p.RequireCrossOriginAnonymous(true)
	}
	var allowed []bool
	if mode != 0 {
		// an entry mapped to false behaves like an absent entry for every lookup
		// the filter makes, so a symbolic value per documented token covers all
		// subsets without forking
		p.requireSandboxOnIFrame = map[string]bool{}
		for _, t := range sandboxTokens {
			b := nondetBool("sb." + t)
			verifNoteBool("sb."+t, b)
			p.requireSandboxOnIFrame[t] = b
			allowed = append(allowed, b)
		}
	}
	allowGlobally(p, "crossorigin", "sandbox", "other")
	el := pickEl("el", "audio", "img", "link", "script", "video", "iframe")
	n := nondetIntRange("in.n", 1, verifParam("maxAttrs"))
	in := symAttrs(n, "crossorigin", "sandbox", "other")
	noteAttrs("in", in)
	verifNote("el", el)
	out := p.sanitizeAttrs(el, in, p.elsAndAttrs[el])
	noteAttrs("out", out)
	if len(out) == 0 {
		return
	}
	verifReach("C12-emitted-with-attributes")
	ok := true
	check := func(c bool, id string) {
		verifNoteBool("c:"+id, c)
		ok = verifAnd(ok, c)
	}
	if mode != 1 && (el == "audio" || el == "img" || el == "link" || el == "script" || el == "video") {
		found := false
		for _, a := range out {
			if a.Key == "crossorigin" {
				found = true
				check(a.Val == "anonymous", "crossorigin-anonymous")
			}
		}
		check(found, "crossorigin-present")
	}
	if mode != 0 && el == "iframe" {
		found := false
		for _, a := range out {
			if a.Key == "sandbox" {
				found = true
				// The emitted value is re-read as a browser does (split on ASCII
				// white space): every token is one the policy listed, none twice.
				toks := stringsFields(a.Val)
				for i, t := range toks {
					listed := false
					for j, lit := range sandboxTokens {
						listed = verifOr(listed, verifAnd(t == lit, allowed[j]))
					}
					check(listed, "sandbox-token-listed")
					for k := 0; k < i; k++ {
						check(toks[k] != t, "sandbox-no-duplicates")
					}
				}
				// and it is in canonical form: single spaces, no padding
				check(a.Val == stringsJoin(toks), "sandbox-canonical")
			}
		}
		check(found, "sandbox-present")
	}
	verifAssert(ok, "C12")
}

func stringsFields(s string) []string { return strings.Fields(s) }
func stringsJoin(l []string) string   { return strings.Join(l, " ") }

func sandboxListPattern() string {
	alt := ""
	for i, t := range sandboxTokens {
		if i > 0 {
			alt += "|"
		}
		alt += t
	}
	return `^((` + alt + `)( (` + alt + `))*)?$`
}

// HarnessC12_builder runs the real RequireSandboxOnIFrame / AllowIFrames on
// each documented value and compares the resulting table with the documented
// token of that value.
func HarnessC12_builder() {
	for i, t := range sandboxTokens {
		p := NewPolicy()
		p.RequireSandboxOnIFrame(SandboxValue(i))
		verifAssert(len(p.requireSandboxOnIFrame) == 1 && p.requireSandboxOnIFrame[t], "C12-builder-"+t)
		q := NewPolicy()
		q.AllowIFrames(SandboxValue(i))
		_, hasRule := q.elsAndAttrs["iframe"]["sandbox"]
		verifAssert(hasRule && len(q.requireSandboxOnIFrame) == 1 && q.requireSandboxOnIFrame[t], "C12-allowiframes-"+t)
	}
	p := NewPolicy()
	p.RequireSandboxOnIFrame()
	verifAssert(p.requireSandboxOnIFrame != nil && len(p.requireSandboxOnIFrame) == 0, "C12-builder-empty")
}
