//go:build verif

package bluemonday

import (
	"bytes"
	"io"
	"regexp"
	"strings"

	"golang.org/x/net/html"
)

// ---- symbolic policy for the token-loop harnesses -------------------------
//
// The tables get a fixed number of entries with symbolic keys; an entry whose
// key equals nothing that is looked up is equivalent to an absent entry, so
// the entry count is an upper bound, not an exact size.

const (
	loopEls      = 2 // explicit element entries
	loopPatterns = 2 // element patterns
	loopSkip     = 2 // skip-content entries
	loopBare     = 2 // elements allowed without attributes
)

func symLoopPolicy() *Policy {
	p := &Policy{}
	p.init()
	p.addSpaces = nondetBool("p.addSpaces")
	p.allowComments = nondetBool("p.allowComments")
	p.allowUnsafe = nondetBool("p.allowUnsafe")
	// Keys within one table are assumed pairwise distinct: two equal keys are
	// one entry, so this loses no policy.
	var names []string
	distinct := func(tag string) string {
		n := nondetString(tag)
		for _, o := range names {
			verifAssume(n != o)
		}
		names = append(names, n)
		return n
	}
	for i := 0; i < loopEls; i++ {
		p.elsAndAttrs[distinct("p.el")] = map[string][]attrPolicy{}
	}
	for i := 0; i < loopPatterns; i++ {
		p.elsMatchingAndAttrs[nondetRegexp("p.elre")] = map[string][]attrPolicy{}
	}
	// Patterns allowed without attributes: independent opaque patterns. Through
	// the API each of them is also an element pattern; a model may interpret a
	// bare pattern and an element pattern identically, so sharing is covered and
	// the extra freedom is an over-approximation.
	for i := 0; i < loopPatterns; i++ {
		p.setOfElementsMatchingAllowedWithoutAttrs = append(p.setOfElementsMatchingAllowedWithoutAttrs, nondetRegexp("p.barere"))
	}
	names = nil
	for i := 0; i < loopSkip; i++ {
		p.setOfElementsToSkipContent[distinct("p.skip")] = struct{}{}
	}
	names = nil
	for i := 0; i < loopBare; i++ {
		p.setOfElementsAllowedWithoutAttrs[distinct("p.bare")] = struct{}{}
	}
	return p
}

// specElementAllowed is written from the statement of C01: allowed by name
// or by any element pattern.
func specElementAllowed(p *Policy, name string) bool {
	if _, ok := p.elsAndAttrs[name]; ok {
		return true
	}
	for re := range p.elsMatchingAndAttrs {
		if re.MatchString(name) {
			return true
		}
	}
	return false
}

// stubSanitizeAttrs replaces (*Policy).sanitizeAttrs in the loop harnesses:
// it returns an arbitrary attribute list (0..1 attributes, arbitrary content).
func stubSanitizeAttrs(p *Policy, elementName string, attrs []html.Attribute, aps map[string][]attrPolicy) []html.Attribute {
	verifAssert(len(attrs) > 0, "sanitizeAttrs-called-with-attrs")
	out := []html.Attribute{}
	if nondetBool("attrsSurvive") {
		out = append(out, html.Attribute{Key: nondetString("outKey"), Val: nondetString("outVal")})
	}
	return out
}

type stubReader struct{}

func (stubReader) Read(b []byte) (int, error) { return 0, io.EOF }

// ---- C01 / C05 / C06 monitor ----------------------------------------------

type monWriter struct {
	p      *Policy
	faults bool
}

func (w *monWriter) Write(b []byte) (int, error) {
	verifAssert(false, "plain-Write-used-on-string-writer")
	return len(b), nil
}

func (w *monWriter) WriteString(s string) (int, error) {
	if w.faults && nondetBool("wfail") {
		verifWriteFailed(s)
		return 0, nondetError("werr")
	}
	verifWrite(s)
	return len(s), nil
}

// HarnessLoop_step runs sanitize with an arbitrary policy; the engine havocs
// the loop-carried state at the loop header, so one iteration from an
// arbitrary state is explored. Per-property assertions are made by the
// engine-side driver from the recorded pre/post state, token and writes.
func HarnessLoop_step() {
	p := symLoopPolicy()
	verifFreeze()
	w := &monWriter{p: p}
	err := p.sanitize(stubReader{}, w)
	verifNoteBool("returned-error", err != nil)
}

// HarnessLoop_stepFaults is the same with a destination whose every write
// may fail (C16).
func HarnessLoop_stepFaults() {
	p := symLoopPolicy()
	w := &monWriter{p: p, faults: true}
	err := p.sanitize(stubReader{}, w)
	verifNoteBool("returned-error", err != nil)
}

var _ = regexp.MustCompile

// HarnessLoop_withBuff drives sanitizeWithBuff (the SanitizeReader path): on
// any error the returned buffer must be empty.
func HarnessLoop_withBuff() {
	p := symLoopPolicy()
	buf := p.sanitizeWithBuff(stubReader{})
	verifNoteInt("buflen", buf.Len())
}

// ---- C15: entry points ---------------------------------------------------------

// plainWriter implements io.Writer only.
type plainWriter struct{}

func (plainWriter) Write(b []byte) (int, error) {
	verifWrite(string(b))
	return len(b), nil
}

// HarnessLoop_stepPlainWriter: as HarnessLoop_step with a destination that
// does not implement WriteString (sanitize wraps it in asStringWriter).
func HarnessLoop_stepPlainWriter() {
	p := symLoopPolicy()
	verifFreeze()
	err := p.sanitize(stubReader{}, plainWriter{})
	verifNoteBool("returned-error", err != nil)
}

// HarnessC15_entrypoints: with sanitize summarised as an uninterpreted
// function of the input bytes (engine-side), the four entry points agree.
func HarnessC15_entrypoints() {
	p := NewPolicy()
	s := nondetString("input")
	a := p.Sanitize(s)
	b := string(p.SanitizeBytes([]byte(s)))
	c := p.SanitizeReader(strings.NewReader(s)).String()
	var buf bytes.Buffer
	err := p.SanitizeReaderToWriter(strings.NewReader(s), &buf)
	d := buf.String()
	verifNote("Sanitize", a)
	verifNote("SanitizeBytes", b)
	verifNote("SanitizeReader", c)
	verifNote("ToWriter", d)
	blank := strings.TrimSpace(s) == ""
	if blank {
		verifReach("C15-blank")
		verifAssert(a == s, "C15-blank-Sanitize-returns-input")
		verifAssert(b == s, "C15-blank-SanitizeBytes-returns-input")
		return
	}
	verifReach("C15-nonblank")
	verifAssert(a == b, "C15-Sanitize-equals-SanitizeBytes")
	verifAssert(a == c, "C15-Sanitize-equals-SanitizeReader")
	if err == nil {
		verifAssert(a == d, "C15-Sanitize-equals-SanitizeReaderToWriter")
	} else {
		verifAssert(a == "" && c == "", "C15-error-gives-empty-result")
	}
}
