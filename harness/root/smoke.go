//go:build verif

package bluemonday

import "net/url"

func HarnessSmoke_dataAttr() {
	k := nondetString("key")
	if isDataAttribute(k) {
		verifReach("accepted")
		verifAssert(verifMatch(`^data-[^A-Z]+$`, k), "wellformed")
	}
}

func HarnessSmoke_ugc() {
	p := UGCPolicy()
	verifAssert(p.requireNoFollow, "nofollow-on")
	_, ok := p.elsAndAttrs["a"]
	verifAssert(ok, "a-allowed")
}

func HarnessSmoke_policy() {
	p := symLoopPolicy()
	verifNoteBool("x", p.addSpaces)
}

// ---- C14 unit harnesses -------------------------------------------------------------

func HarnessC14_removeUnicode() {
	v := nondetString("v")
	out := removeUnicode(v)
	verifNote("out", out)
	verifReach("C14-removeUnicode-returns")
}

func HarnessC14_dataURI() {
	p := NewPolicy()
	p.AllowDataURIImages()
	fs := p.allowURLSchemes["data"]
	verifAssert(len(fs) == 1, "C14-data-scheme-has-one-check")
	u := &url.URL{Scheme: "data", Opaque: nondetString("opaque"), RawQuery: nondetString("query"), Fragment: nondetString("fragment")}
	ok := fs[0](u)
	verifNoteBool("ok", ok)
	verifReach("C14-dataURI-returns")
}

func HarnessC14_isDataAttribute() {
	k := nondetString("key")
	ok := isDataAttribute(k)
	verifNoteBool("ok", ok)
	verifReach("C14-isDataAttribute-returns")
}
