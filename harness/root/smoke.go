//go:build verif

package bluemonday

func HarnessSmoke_dataAttr() {
	k := nondetString("key")
	if isDataAttribute(k) {
		verifReach("accepted")
		verifAssert(verifMatch(`^data-[^A-Z]+$`, k), "wellformed")
	}
}

func HarnessSmoke_ugc() {
	p := UGCPolicy()
	verifAssert(p.requireNoFollow, "nofollow-on")
	_, ok := p.elsAndAttrs["a"]
	verifAssert(ok, "a-allowed")
}

func HarnessSmoke_policy() {
	p := symLoopPolicy()
	verifNoteBool("x", p.addSpaces)
}
