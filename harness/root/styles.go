//go:build verif

package bluemonday

import (
	"strings"

	dcss "github.com/aymerick/douceur/css"
	"golang.org/x/net/html"
)

// ---- C10: inline style filtering ---------------------------------------------------

var c10Decls []*dcss.Declaration
var c10ParseErr bool

// stubParseDeclarations replaces douceur's parser (assumption A5): an error, or
// any list of up to maxDecls declarations with arbitrary property and value.
func stubParseDeclarations(src string) ([]*dcss.Declaration, error) {
	verifNote("parse.src", src)
	n := nondetIntRange("decls.n", -1, verifParam("maxDecls"))
	if n < 0 {
		c10ParseErr = true
		return nil, nondetError("parse")
	}
	c10ParseErr = false
	var ds []*dcss.Declaration
	for i := 0; i < n; i++ {
		ds = append(ds, &dcss.Declaration{Property: nondetString("decl.prop"), Value: nondetString("decl.val"), Important: nondetBool("decl.important")})
	}
	c10Decls = ds
	verifNoteInt("decls.n", n)
	for i, d := range ds {
		verifNote("decl.prop"+itoa(i), d.Property)
		verifNote("decl.val"+itoa(i), d.Value)
	}
	return ds, nil
}

// stubRemoveUnicode: removeUnicode is an uninterpreted function here (its own
// behaviour is checked separately); the oracle uses the same symbol.
func stubRemoveUnicode(s string) string { return verifRU(s) }

// matcherList builds one of the matcher-list shapes:
// 0 [handler] 1 [enum] 2 [regexp] 3 [handler, regexp] 4 [enum, handler]
func matcherList(tag string, shape int) []stylePolicy {
	h := func() stylePolicy { return stylePolicy{handler: nondetPred(tag + ".handler")} }
	e := func() stylePolicy {
		return stylePolicy{enum: []string{nondetString(tag + ".enum"), nondetString(tag + ".enum")}}
	}
	r := func() stylePolicy { return stylePolicy{regexp: nondetRegexp(tag + ".re")} }
	switch shape {
	case 0:
		return []stylePolicy{h()}
	case 1:
		return []stylePolicy{e()}
	case 2:
		return []stylePolicy{r()}
	case 3:
		return []stylePolicy{h(), r()}
	default:
		return []stylePolicy{e(), h()}
	}
}

// specStyleAccepts: some matcher registered for the property accepts the value.
func specStyleAccepts(rules []stylePolicy, v string) bool {
	acc := false
	for _, sp := range rules {
		switch {
		case sp.handler != nil:
			acc = verifOr(acc, sp.handler(v))
		case len(sp.enum) > 0:
			for _, x := range sp.enum {
				acc = verifOr(acc, verifLower(x) == verifLower(v))
			}
		case sp.regexp != nil:
			acc = verifOr(acc, sp.regexp.MatchString(v))
		}
	}
	return acc
}

var specVendorPrefixes = []string{"-webkit-", "-moz-", "-ms-", "-o-", "mso-", "-xv-", "-atsc-", "-wap-", "-khtml-", "prince-", "-ah-", "-hp-", "-ro-", "-rim-", "-tc-"}

func specStripVendor(prop string) string {
	for _, pre := range specVendorPrefixes {
		prop = strings.TrimPrefix(prop, pre)
	}
	return prop
}

func HarnessC10_styles() {
	p := &Policy{}
	p.init()
	el := "div"
	scope := nondetIntRange("scope", 0, 2) // 0 element rules, 1 element-pattern rules, 2 none of these
	verifNoteInt("scope", scope)
	var elRules map[string][]stylePolicy
	elKey := nondetString("el.prop")
	verifAssume(verifMatch(`^[^A-Z]*$`, elKey)) // AllowStyles lower-cases property names
	switch scope {
	case 0:
		elRules = map[string][]stylePolicy{elKey: matcherList("el", nondetIntRange("el.shape", verifParam("shapeLo"), 4))}
		p.elsAndStyles[el] = elRules
	case 1:
		elRules = map[string][]stylePolicy{elKey: matcherList("el", nondetIntRange("el.shape", verifParam("shapeLo"), 4))}
		re := nondetRegexp("elpattern")
		verifAssume(re.MatchString(el))
		p.elsMatchingAndStyles[re] = elRules
	}
	globKey := nondetString("glob.prop")
	verifAssume(verifMatch(`^[^A-Z]*$`, globKey))
	globRules := matcherList("glob", nondetIntRange("glob.shape", verifParam("shapeLo"), 4))
	p.globalStyles[globKey] = globRules

	verifFreeze()
	style := nondetString("style")
	out := p.sanitizeStyles(html.Attribute{Key: "style", Val: style}, el)
	verifNote("out", out.Val)
	verifAssert(verifEffects() == 0, "C13-no-write-to-shared-state")
	verifReach("C10-reach")
	if c10ParseErr {
		verifAssert(out.Val == "", "C10-parse-error-removes-style")
		return
	}
	// oracle: keep exactly the declarations whose stripped, lower-cased property
	// has a matcher (element scope or global) accepting the lower-cased,
	// escape-decoded value; in order; "prop: value" joined with "; "
	var kept []string
	okAll := true
	expected := ""
	first := true
	for i, d := range c10Decls {
		q := specStripVendor(verifLower(d.Property))
		v := verifRU(verifLower(d.Value))
		acc := false
		if elRules != nil {
			acc = verifOr(acc, verifAnd(q == elKey, specStyleAccepts(elRules[elKey], v)))
		}
		acc = verifOr(acc, verifAnd(q == globKey, specStyleAccepts(globRules, v)))
		verifNoteBool("keep"+itoa(i), acc)
		kept = append(kept, d.Property+": "+d.Value)
		_ = okAll
		_ = first
		expected = verifJoinIf(expected, acc, kept[i], "; ")
	}
	verifNote("expected", expected)
	verifAssert(out.Val == expected, "C10-style-is-exactly-the-accepted-declarations")
}

// HarnessC10_routing: with style rules applicable to the element the style
// attribute is governed by them alone; without, by the generic attribute rules.
func HarnessC10_routing() {
	p := &Policy{}
	p.init()
	el := "div"
	mode := nondetIntRange("mode", 0, 3) // 0 none 1 global 2 element 3 element pattern
	verifNoteInt("mode", mode)
	one := map[string][]stylePolicy{"color": {{handler: nondetPred("h")}}}
	switch mode {
	case 1:
		p.globalStyles["color"] = one["color"]
	case 2:
		p.elsAndStyles[el] = one
	case 3:
		re := nondetRegexp("elpattern")
		verifAssume(re.MatchString(el))
		p.elsMatchingAndStyles[re] = one
	}
	attrAllowed := nondetIntRange("styleAttrAllowed", 0, 1) == 1
	if attrAllowed {
		allowGlobally(p, "style")
	}
	val := nondetString("style")
	out := p.sanitizeAttrs(el, []html.Attribute{{Key: "style", Val: val}}, map[string][]attrPolicy{})
	verifNoteInt("stylecalls", verifCallCount("sanitizeStyles"))
	if mode == 0 {
		verifAssert(verifCallCount("sanitizeStyles") == 0, "C10-no-style-rules-no-style-filter")
		verifAssert((len(out) == 1) == attrAllowed, "C10-generic-rules-govern-style-without-style-rules")
	} else {
		verifAssert(verifCallCount("sanitizeStyles") == 1, "C10-style-rules-route-through-style-filter")
		if len(out) == 1 {
			verifAssert(out[0].Val != "", "C10-empty-style-removed")
		}
	}
}

func stubSanitizeStyles(p *Policy, attr html.Attribute, elementName string) html.Attribute {
	attr.Val = nondetString("styles.out")
	return attr
}

// HarnessC13_styleOrder: two element patterns both matching the element, with
// different rules for one property; the engine explores both map iteration
// orders. The result must be the order-independent union semantics.
func HarnessC13_styleOrder() {
	p := &Policy{}
	p.init()
	el := "div"
	r1, r2 := nondetRegexp("elpattern1"), nondetRegexp("elpattern2")
	verifAssume(r1.MatchString(el))
	verifAssume(r2.MatchString(el))
	h1, h2 := nondetPred("h1"), nondetPred("h2")
	p.elsMatchingAndStyles[r1] = map[string][]stylePolicy{"color": {{handler: h1}}}
	p.elsMatchingAndStyles[r2] = map[string][]stylePolicy{"color": {{handler: h2}}}
	verifFreeze()
	out := p.sanitizeStyles(html.Attribute{Key: "style", Val: nondetString("style")}, el)
	verifAssert(verifEffects() == 0, "C13-no-write-to-shared-state")
	if c10ParseErr || len(c10Decls) != 1 {
		return
	}
	d := c10Decls[0]
	v := verifRU(verifLower(d.Value))
	keep := verifAnd(specStripVendor(verifLower(d.Property)) == "color", verifOr(h1(v), h2(v)))
	verifAssert(verifImplies(keep, out.Val == d.Property+": "+d.Value), "C13-order-independent-kept")
	verifAssert(verifImplies(verifNot(keep), out.Val == ""), "C13-order-independent-dropped")
	// routing through sanitizeAttrs: the hasStylePolicies loop
	out2 := p.sanitizeAttrs(el, []html.Attribute{{Key: "style", Val: "x"}}, map[string][]attrPolicy{})
	_ = out2
	verifAssert(verifCallCount("sanitizeStyles") >= 2, "C13-order-independent-routing")
}
