//go:build verif

package bluemonday

import "net/url"

// ---- C17: a policy is its rule set ------------------------------------------------

func countRule(rules []attrPolicy, r interface{}) int {
	n := 0
	for _, ap := range rules {
		if verifSameObject(ap.regexp, r) {
			n++
		}
	}
	return n
}

// HarnessC17_case: every name-taking builder files its rule under the
// lower-cased name.
func HarnessC17_case() {
	n := nondetString("name")
	a := nondetString("attr")
	r := nondetRegexp("re")
	ln, la := verifLower(n), verifLower(a)
	which := nondetIntRange("builder", 0, 10)
	verifNoteInt("builder", which)
	p := NewPolicy()
	switch which {
	case 0:
		p.AllowElements(n)
		_, ok := p.elsAndAttrs[ln]
		verifAssert(ok, "C17-case-AllowElements")
	case 1:
		p.AllowAttrs(a).Matching(r).OnElements(n)
		verifAssert(countRule(p.elsAndAttrs[ln][la], r) == 1, "C17-case-AllowAttrs-OnElements")
	case 2:
		p.AllowAttrs(a).Matching(r).Globally()
		verifAssert(countRule(p.globalAttrs[la], r) == 1, "C17-case-AllowAttrs-Globally")
	case 3:
		er := nondetRegexp("elre")
		p.AllowAttrs(a).Matching(r).OnElementsMatching(er)
		verifAssert(countRule(p.elsMatchingAndAttrs[er][la], r) == 1, "C17-case-AllowAttrs-OnElementsMatching")
	case 4:
		p.AllowNoAttrs().OnElements(n)
		_, ok := p.setOfElementsAllowedWithoutAttrs[ln]
		_, ok2 := p.elsAndAttrs[ln]
		verifAssert(verifAnd(ok, ok2), "C17-case-AllowNoAttrs")
	case 5:
		p.AllowStyles(a).Matching(r).OnElements(n)
		sp := p.elsAndStyles[ln][la]
		verifAssert(len(sp) == 1 && verifSameObject(sp[0].regexp, r), "C17-case-AllowStyles-OnElements")
	case 6:
		p.AllowStyles(a).Matching(r).Globally()
		sp := p.globalStyles[la]
		verifAssert(len(sp) == 1 && verifSameObject(sp[0].regexp, r), "C17-case-AllowStyles-Globally")
	case 7:
		p.AllowURLSchemes(n)
		fs, ok := p.allowURLSchemes[ln]
		verifAssert(verifAnd(ok, len(fs) == 0), "C17-case-AllowURLSchemes")
		verifAssert(p.requireParseableURLs, "C17-AllowURLSchemes-implies-parseable")
	case 8:
		p.AllowURLSchemeWithCustomPolicy(n, nondetURLPred("f"))
		verifAssert(len(p.allowURLSchemes[ln]) == 1, "C17-case-AllowURLSchemeWithCustomPolicy")
	case 9:
		p.SkipElementsContent(n)
		_, ok := p.setOfElementsToSkipContent[ln]
		verifAssert(ok, "C17-case-SkipElementsContent")
	case 10:
		p.SkipElementsContent(ln)
		p.AllowElementsContent(n)
		_, ok := p.setOfElementsToSkipContent[ln]
		verifAssert(verifNot(ok), "C17-case-AllowElementsContent")
	}
}

// HarnessC17_order: two rule-adding calls in either order give the same
// rule multisets; earlier rules are never removed.
func HarnessC17_order() {
	e1, e2 := nondetString("e1"), nondetString("e2")
	a1, a2 := nondetString("a1"), nondetString("a2")
	r1, r2 := nondetRegexp("r1"), nondetRegexp("r2")
	// kind 4: two elements introduced by one AllowElements call, then a rule for
	// one of them (grouping of names into calls must not matter)
	kind := nondetIntRange("kind", 0, 4)
	verifNoteInt("kind", kind)
	A := func(p *Policy) {
		switch kind {
		case 4:
			p.AllowElements(e1, e2)
		case 0:
			p.AllowAttrs(a1).Matching(r1).OnElements(e1)
		case 1:
			p.AllowAttrs(a1).Matching(r1).Globally()
		case 2:
			p.AllowStyles(a1).Matching(r1).OnElements(e1)
		case 3:
			p.AllowAttrs(a1).Matching(r1).OnElements(e1, e2)
		}
	}
	B := func(p *Policy) {
		switch kind {
		case 0:
			p.AllowAttrs(a2).Matching(r2).OnElements(e2)
		case 1:
			p.AllowAttrs(a2).Matching(r2).Globally()
		case 2:
			p.AllowStyles(a2).Matching(r2).OnElements(e2)
		case 3:
			p.AllowAttrs(a2, a1).Matching(r2).OnElements(e1)
		case 4:
			p.AllowAttrs(a1).Matching(r1).OnElements(e1)
		}
	}
	p1, p2 := NewPolicy(), NewPolicy()
	A(p1)
	B(p1)
	B(p2)
	A(p2)
	for _, e := range []string{verifLower(e1), verifLower(e2)} {
		for _, a := range []string{verifLower(a1), verifLower(a2)} {
			for _, r := range []interface{}{r1, r2} {
				switch kind {
				case 0, 3, 4:
					verifAssert(countRule(p1.elsAndAttrs[e][a], r) == countRule(p2.elsAndAttrs[e][a], r), "C17-order-element-rules")
				case 1:
					verifAssert(countRule(p1.globalAttrs[a], r) == countRule(p2.globalAttrs[a], r), "C17-order-global-rules")
				case 2:
					c1, c2 := 0, 0
					for _, sp := range p1.elsAndStyles[e][a] {
						if verifSameObject(sp.regexp, r) {
							c1++
						}
					}
					for _, sp := range p2.elsAndStyles[e][a] {
						if verifSameObject(sp.regexp, r) {
							c2++
						}
					}
					verifAssert(c1 == c2, "C17-order-style-rules")
				}
			}
		}
	}
	// accumulation: A's rule is still there after B
	switch kind {
	case 0, 3:
		verifAssert(countRule(p1.elsAndAttrs[verifLower(e1)][verifLower(a1)], r1) >= 1, "C17-accumulate-element-rules")
	case 1:
		verifAssert(countRule(p1.globalAttrs[verifLower(a1)], r1) >= 1, "C17-accumulate-global-rules")
	}
}

// HarnessC17_switches: switch-like options reflect the most recent setting.
func HarnessC17_switches() {
	b1, b2 := nondetBool("b1"), nondetBool("b2")
	p := NewPolicy()
	p.RequireNoFollowOnLinks(b1).RequireNoFollowOnLinks(b2)
	verifAssert(p.requireNoFollow == b2, "C17-switch-RequireNoFollowOnLinks")
	p.RequireNoFollowOnFullyQualifiedLinks(b1).RequireNoFollowOnFullyQualifiedLinks(b2)
	verifAssert(p.requireNoFollowFullyQualifiedLinks == b2, "C17-switch-RequireNoFollowOnFullyQualifiedLinks")
	p.RequireNoReferrerOnLinks(b1).RequireNoReferrerOnLinks(b2)
	verifAssert(p.requireNoReferrer == b2, "C17-switch-RequireNoReferrerOnLinks")
	p.RequireNoReferrerOnFullyQualifiedLinks(b1).RequireNoReferrerOnFullyQualifiedLinks(b2)
	verifAssert(p.requireNoReferrerFullyQualifiedLinks == b2, "C17-switch-RequireNoReferrerOnFullyQualifiedLinks")
	p.AddTargetBlankToFullyQualifiedLinks(b1).AddTargetBlankToFullyQualifiedLinks(b2)
	verifAssert(p.addTargetBlankToFullyQualifiedLinks == b2, "C17-switch-AddTargetBlankToFullyQualifiedLinks")
	p.RequireCrossOriginAnonymous(b1).RequireCrossOriginAnonymous(b2)
	verifAssert(p.requireCrossOriginAnonymous == b2, "C17-switch-RequireCrossOriginAnonymous")
	p.AddSpaceWhenStrippingTag(b1).AddSpaceWhenStrippingTag(b2)
	verifAssert(p.addSpaces == b2, "C17-switch-AddSpaceWhenStrippingTag")
	p.AllowUnsafe(b1).AllowUnsafe(b2)
	verifAssert(p.allowUnsafe == b2, "C17-switch-AllowUnsafe")
	p.RequireParseableURLs(b1).RequireParseableURLs(b2)
	verifAssert(p.requireParseableURLs == b2, "C17-switch-RequireParseableURLs")
	p.AllowRelativeURLs(b1).AllowRelativeURLs(b2)
	verifAssert(p.allowRelativeURLs == b2, "C17-switch-AllowRelativeURLs")
	// skip / keep content per element
	n := nondetString("el")
	ln := verifLower(n)
	p.SkipElementsContent(n).AllowElementsContent(n)
	_, sk := p.setOfElementsToSkipContent[ln]
	verifAssert(verifNot(sk), "C17-switch-skip-then-allow-content")
	p.AllowElementsContent(n).SkipElementsContent(n)
	_, sk2 := p.setOfElementsToSkipContent[ln]
	verifAssert(sk2, "C17-switch-allow-then-skip-content")
	// scheme registrations
	s := nondetString("scheme")
	ls := verifLower(s)
	p.AllowURLSchemeWithCustomPolicy(s, func(*url.URL) bool { return false })
	p.AllowURLSchemes(s)
	fs, ok := p.allowURLSchemes[ls]
	verifAssert(verifAnd(ok, len(fs) == 0), "C17-switch-AllowURLSchemes-makes-scheme-unconditional")
	// sandbox: most recent list wins
	p.RequireSandboxOnIFrame(SandboxAllowForms)
	p.RequireSandboxOnIFrame(SandboxAllowScripts)
	verifAssert(len(p.requireSandboxOnIFrame) == 1 && p.requireSandboxOnIFrame["allow-scripts"], "C17-switch-RequireSandboxOnIFrame")
}

// HarnessC17_independent: policies share no mutable state.
func HarnessC17_independent() {
	which := nondetIntRange("ctor", 0, 2)
	verifNoteInt("ctor", which)
	mk := func() *Policy {
		switch which {
		case 0:
			return NewPolicy()
		case 1:
			return UGCPolicy()
		default:
			return StrictPolicy()
		}
	}
	p1 := mk()
	verifFreeze()
	p2 := mk()
	verifAssert(verifDisjointHeaps(p1, p2), "C17-constructors-share-no-mutable-object")
	// extending p2 in every way leaves p1 untouched
	re := nondetRegexp("re")
	p2.AllowElements("x").AllowElementsMatching(re)
	p2.AllowAttrs("k").Matching(re).OnElements("a", "x")
	p2.AllowAttrs("k").Globally()
	p2.AllowAttrs("k").OnElementsMatching(re)
	p2.AllowNoAttrs().OnElements("a")
	p2.AllowStyles("color").OnElements("a")
	p2.AllowStyles("color").Globally()
	p2.AllowStyles("color").OnElementsMatching(re)
	p2.AllowURLSchemes("x").AllowURLSchemesMatching(re)
	p2.SkipElementsContent("a").AllowElementsContent("script")
	p2.AllowStandardURLs()
	p2.AllowStandardAttributes()
	p2.AllowImages()
	p2.AllowLists()
	p2.AllowTables()
	p2.AllowIFrames(SandboxAllowForms)
	p2.AllowDataURIImages()
	p2.AllowComments()
	p2.AllowDataAttributes()
	p2.RequireNoFollowOnLinks(true).RequireCrossOriginAnonymous(true).AddSpaceWhenStrippingTag(true)
	verifAssert(verifEffects() == 0, "C17-building-one-policy-writes-nothing-of-another")
	verifAssert(verifDisjointHeaps(p1, p2), "C17-extended-policies-share-no-mutable-object")
}
